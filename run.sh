#!/bin/bash
# run.sh <PROPERTY-ID> <quick|thorough> [extra args to `check`]
# Rebuilds the harness (and, through the path dependency, html2text from /repo's working tree),
# then runs the check, which rewrites /verif/evidence/<ID>.json.
# exit 0 = property held on everything explored; 1 = VIOLATION line printed; 2 = infrastructure problem.
set -u
ID="${1:?property id}"
TIER="${2:-${VERIF_TIER:-quick}}"
shift; shift || true
HERE="$(cd "$(dirname "${BASH_SOURCE[0]}")" && pwd)"
export CARGO_NET_OFFLINE=true
export VERIF_DIR="${VERIF_DIR:-$HERE}"
export VERIF_HOME="$HERE"
cd "$HERE/harness" || exit 2
LOG="$(mktemp)"
if ! cargo build --release --offline >"$LOG" 2>&1; then
  echo "BUILD-FAILED: the harness or /repo does not compile" >&2
  tail -40 "$LOG" >&2
  rm -f "$LOG"
  exit 2
fi
rm -f "$LOG"
exec ./target/release/check "$ID" --tier "$TIER" "$@" 2> >(grep -v '^proptest: ' >&2)
