#!/bin/bash
# Validate MANIFEST.json and every evidence file against the schemas (tooling venv python).
python3-vt - <<'PY'
import json, jsonschema, glob, sys
ok = True
m = json.load(open('/verif/MANIFEST.json'))
try:
    jsonschema.validate(m, json.load(open('/root/.vp/MANIFEST.schema.json')))
    print('MANIFEST ok:', len(m['checks']), 'checks,', len(m.get('not_applicable', [])), 'n/a')
except Exception as e:
    ok = False; print('MANIFEST INVALID', e)
es = json.load(open('/root/.vp/EVIDENCE.schema.json'))
for f in sorted(glob.glob('/verif/evidence/*.json')):
    try:
        d = json.load(open(f)); jsonschema.validate(d, es)
        c = d['coverage']
        print(f.split('/')[-1], 'ok', d['tier'], 'evals', c.get('evaluations'), 'nt', c.get('distinct_nontrivial'), 'viol', d.get('violations'), 'wall', d['wall_s'])
    except Exception as e:
        ok = False; print(f, 'INVALID', str(e)[:300])
ids = [json.loads(l)['id'] for l in open('/verif/properties.jsonl')]
claimed = {c['property_id'] for c in m['checks']}
na = {c['property_id'] for c in m.get('not_applicable', [])}
missing = [i for i in ids if i not in claimed and i not in na]
if missing: print('neither claimed nor n/a:', missing)
sys.exit(0 if ok else 1)
PY
