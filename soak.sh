#!/bin/bash
# soak.sh "<seeds>" [tier]: run every check with several seeds into a scratch output dir; print anything that is not OK.
SEEDS="${1:-2 3 4}"; TIER="${2:-quick}"
for s in $SEEDS; do for i in 01 02 03 04 05 06 07 08 09 10 11 12 13 14 15 16 17 18 19 20; do
  out=$(VERIF_SEED=$s VERIF_DIR=/tmp/soak ./run.sh C$i $TIER 2>&1); rc=$?
  if [ $rc -ne 0 ]; then echo "seed=$s C$i rc=$rc"; echo "$out" | grep -v "^KNOWN-FINDING" | grep -A6 "FAILED\|INCONCLUSIVE\|BUILD" | cut -c1-700 | head -30; fi
done; echo "seed $s done"; done
