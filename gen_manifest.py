#!/usr/bin/env python3
"""Regenerate MANIFEST.json from the table below (keeps the manifest consistent while checks are added)."""
import json

CHECKS = {
 "C01": ("exploration",
   "Totality search: byte-mutated and unmutated grammar documents with a numeric-attribute and Unicode-sequence dictionary x widths {0..200, 1e5, usize::MAX-k} x decorators x option subsets x CSS sheets through every public entry point, built with overflow checks and debug assertions; plus a deterministic nesting ladder (24 tag patterns to depth 1e4 quick / 1e5 thorough) in child processes on the main thread under time and memory limits. Oracle: Ok or Err(TooNarrow), no panic, no abort, no hang.",
   "Trusted: watchdog bounds (60 s per in-process case; ladder limits >= 30x measured time); padding only with bounded widths; non-ASCII decorator strings belong to C16. Quadratic memory of deeply nested <sup> is a known finding.",
   "property-based testing + byte-level mutation fuzzing (proptest) + deterministic nesting ladder in child processes"),
 "C02": ("exploration",
   "Generated-input search (grammar documents and byte-mutated ones, widths 1..=120, bounded option mixes) against the validity predicate `every line of Ok output has display width <= width`. Finds over-wide lines in the explored space; no absence proof.",
   "Trusted: unicode-width as the measure (min of per-char sum and string width, so control characters in link targets are not counted); proptest generators; documents up to ~100 nodes.",
   "property-based testing (proptest; validity predicate over generated and byte-mutated documents)"),
 "C03": ("exploration",
   "Conservation oracle against an independent oracle DOM (the harness's own html5ever TreeSink): one identifying character per text node turns lost / duplicated / reordered / invented text into sequence and multiset comparisons (sequence for table-free documents and raw mode; multiset plus per-cell order for tables); every non-pool visible character must be in the decorator's markup alphabet. Byte-mutated documents are compared under the trivial decorator. A further sub-check renders regular tables with empty / blank cells and colspans in raw mode or without borders, where the whole document must keep document order.",
   "Trusted: html5ever; whitespace and control characters are outside the claim; three input classes are known findings (starved colspan cell, caption, stray ol/dl children) and excluded by construction / predicate.",
   "property-based testing (proptest) against an independent oracle DOM (conservation / differential)"),
 "C04": ("exploration",
   "Reference-model oracle: an independent greedy wrapper. Bounded-exhaustive over all sequences of <=3 (quick) / <=5 (thorough) words from an 11-word set x widths 1..=9, plus random paragraphs (<=60 words, 12 separator kinds, text cut over inline elements/text nodes, max_wrap_width, prefixed blocks) x width 1..=40; line lists must be equal and Err <=> a character wider than the line.",
   "Trusted: the 30-line reference wrapper; words have display width >= 1.",
   "bounded-exhaustive enumeration + property-based testing (proptest) against a reference model"),
 "C05": ("exploration",
   "Validity predicates on the rendered character-cell grid of generated regular tables (random incl. nested tables; bounded-exhaustive over all tables up to 2x3 quick / 3x3 thorough x widths 1..=30): local junction law at every rule glyph and bar, equal line widths, first/last rules, one band per row, bars aligned within a band; stacked layout: full-width separators and rules.",
   "Trusted: the grid parser (wide characters occupy two cells); the layout actually used is read off the output; spans over text-less columns are a known finding (junction law only).",
   "bounded-exhaustive enumeration + property-based testing (proptest), validity predicate over a parsed output grid"),
 "C06": ("exploration",
   "Generated regular tables with one identifying character per text node: every character of the output is mapped back to its source cell and must lie between the bars of the columns the cell spans (column boundaries recovered from the output and matched against an independent re-computation of the column geometry), rows/cells in order, every non-empty cell present; stacked layout: one cell per line, contiguous, in order. Bounded-exhaustive small scope as in C05.",
   "Trusted: identifying characters; tablegeo re-computation of colspan remapping; the starved/ragged known-finding class is excluded and counted.",
   "bounded-exhaustive enumeration + property-based testing (proptest), position oracle via identifying characters"),
 "C07": ("exploration",
   "Differential oracle on sub-documents through the public API: a wrapper (ul, ol with start, blockquote, dl/dd, h1..h6) around generated content must render as oracle-computed prefixes + the content rendered on its own at width - prefix, item after item (numbers computed by the oracle); plus a sibling law for solid blocks. By induction this defines every nested rendering from leaf paragraphs.",
   "Trusted: the standard decorators' prefix strings; the inner rendering uses the same public API (a defect that affects wrapped and unwrapped rendering identically is invisible here and is the business of C04/C02/C03).",
   "property-based testing (proptest; compositional differential oracle on sub-documents)"),
 "C08": ("exploration",
   "Generated documents with identifying characters in link texts: the trailing footnote block must un-wrap to `[k]: target_k` for exactly the links with visible content (AST oracle), every link's last character is followed by its `[k]` on the document-order stream (raw-mode rendering for documents with tables), references are 1..n once each, rich annotations separate link text from references, nothing appears when disabled. An enumerated family puts a link around each of 11 block constructs at each position among three links in 4 outer contexts and 3 widths.",
   "Trusted: digit/punctuation link targets; marker parser skips closing markup and prefixes; deep-empty links are a known finding.",
   "property-based testing (proptest; reference numbering model + output parser)"),
 "C09": ("exploration",
   "Oracle DOM as reference model: the expected annotation vector of every text node is the concatenation over its ancestors (outermost first) of [Colour?, BgColour?, own annotation]; identifying characters make every output piece comparable with the vector of the node it came from, across wrapping, sub-renderers and table cells; pieces without text must carry an initial segment of an element chain; pieces joined equal the string output.",
   "Trusted: the element->annotation table; Default ignored, Preformat checked for presence only; row-group colours are a known finding.",
   "property-based testing (proptest) against a reference model derived from an independent oracle DOM"),
 "C10": ("exploration",
   "Stateful generation: a history of <=6 renders (route x width) is interpreted against one render tree built once and cloned per render (also with CSS style attributes), and one parsed DOM is converted several times with different configurations and rendered with configurations that differ in render-time options; every result is compared with a fresh one-shot rendering (differential oracle), plus determinism and route/free-function agreement.",
   "Trusted: string_from_read as the reference route; identity colour map.",
   "property-based testing (proptest; operation histories vs fresh one-shot rendering, differential)"),
 "C11": ("exploration",
   "Generated documents (grammar + byte-mutated), widths 0..=60, option mixes; four relations: width 0 => TooNarrow; overflow => always Ok; overflow is a no-op when rendering already succeeds; overflow lines bounded by max(w, P + max(min_wrap,5)) with P computed from the AST. An enumerated family (27 nearly-empty contents x 13 prefixed contexts x width 0..5 x 3 decorators) covers the places where a block is laid out at width zero.",
   "Trusted: AST-derived prefix widths of the standard decorators; table-free documents for the bound.",
   "property-based testing (proptest; metamorphic relations between render(d,w,o) and render(d,w,o+overflow), AST-derived bound)"),
 "C12": ("exploration",
   "Reference-model oracle for <pre>: tab expansion to 8-column stops, line-for-line reproduction when every line fits, per-source-line character conservation / contiguity / piece width otherwise, Preformat(false/true) tags in rich output. One identifying letter per source line makes loss, duplication, reordering and merging of lines countable.",
   "Trusted: the reference model; only line-trailing whitespace may differ; continuation tags of over-long lines containing whitespace are a known finding and not asserted.",
   "property-based testing (proptest) against a reference model of preformatted layout"),
 "C14": ("exploration",
   "Generated documents with unique ids on random elements: from the oracle DOM and the linearised element stream of the line output, every id with visible text has exactly one marker, ordered after all preceding text and before the element's own text within its scope (table cell or document), on the element's line when the element starts mid-line; string output identical with ids removed; 40% of cases at widths 1..8 to force hard wrapping.",
   "Trusted: identifying characters; scope = innermost table cell; ids on elements without visible text are outside the claim; an id on a table / row whose first cell is skipped is a known finding; white space, zero-width text or decoration between marker and first character makes the same-line clause inapplicable (counted).",
   "property-based testing (proptest; event-stream oracle from an independent oracle DOM, plus a metamorphic id-removal relation)"),
 "C15": ("exploration",
   "Metamorphic relations between render(d,w,base) and render(d,w,base+o) for each of nine options (identity when the option does not apply; width bound beyond the prefix for max_wrap_width; right-trim equality for padding; U+0336 deletion for strikeout; no box characters and same text for no_table_borders/raw_mode; no [k] and same text for link_footnotes(false); same body and unbroken entries for no_link_wrapping; same text and only `*`/backquote added for do_decorate).",
   "Trusted: identifying characters and digit-only link targets separate text from markup; the prefix parser over-approximates; blank <pre> under padding is a known finding.",
   "property-based testing (proptest; one metamorphic relation per option)"),
 "C13": ("exploration",
   "Metamorphic: a table-free, pre-free grammar document and a source-level rewrite of it (whitespace-run substitution, adjacent comments, layout whitespace between block tags, span wrapping) must render byte-identically at every width when both render. An enumerated family of 4320 pairs spells the white space next to block-like parts in unusual places (list parts outside lists, blocks in inline wrappers) in five equivalent ways.",
   "Trusted: the rewriter only produces the rewrites the property names; Ok/TooNarrow disparity is counted, not asserted.",
   "property-based testing (proptest; metamorphic source rewrite)"),
 "C16": ("exploration",
   "A harness-defined TextDecorator family parameterised by 19 strings over ASCII / 2-byte width-1 / 3-byte width-2 / combining characters: totality and width bound on grammar documents (debug assertions on), compositionality of prefixed blocks with the prefix measured by display width (differential on sub-documents), and verbatim reproduction of affixes around identifying-character text (model of the expected character stream).",
   "Trusted: display width = sum of unicode-width character widths; whitespace inside affixes not compared; the TrivialDecorator clause is decided by C03's trivial-decorator sub-checks.",
   "property-based testing (proptest; generated decorators, compositional differential + stream model)"),
 "C17": ("exploration",
   "(a) Robustness: generated strings (CSS token soup, random bytes, truncated valid sheets) through add_css / add_agent_css and inside <style>: Ok or CssParseError, never a panic or hang (watchdog), no effect without use_doc_css, same characters with it unless layout properties are mentioned. (b) Metamorphic: a valid generated sheet and an equivalent spelling (layout, comments, case, final semicolon dropped/doubled, unknown properties, junk at-rules and unparsable rule sets in between) must give the same dom_to_parsed_style and the same rich tagged lines.",
   "Trusted: the variant writer only produces CSS-insignificant differences; a hang is declared after 60 s without progress on one string.",
   "property-based testing + grammar-based fuzzing (proptest; robustness oracle and metamorphic spelling variants)"),
 "C18": ("exploration",
   "Differential: the hidden set is computed by the harness's own selector matcher and cascade on the oracle DOM; rendering with the CSS must be byte-identical (and tagged-line-identical for rich) to rendering the re-serialised oracle DOM with the hidden subtrees removed and all styles stripped; with use_doc_css off the document must render as with its styles stripped. Hiding declarations: display:none, the zero-height + hidden-overflow idiom in several spellings (0, 0px, 0em, 0.0pt, max-height, overflow-y), and near misses of the idiom that must hide nothing (overflow visible/auto/scroll, non-zero heights, one half alone).",
   "Trusted: the oracle DOM serialiser (validated per case by a round trip; mismatches discarded and counted); hide-only sheets (a losing display:none still hiding is a known finding).",
   "property-based testing (proptest; differential against deletion on an independent oracle DOM)"),
 "C19": ("exploration",
   "Reference-model oracle: the harness's own cascade (importance-and-origin rank, inline, specificity, source order). Exhaustive over all ordered pairs (both properties) and all ordered triples of 32 declaration kinds on one element through all four delivery routes, every triple also with one declaration restating an earlier one's value; random agent+user+author sheets and inline styles over nested documents compared as full annotation vectors.",
   "Trusted: the reference cascade (20 lines) and reference matcher; unique colour per declaration (or, in the restated triples, per value) identifies the winner.",
   "bounded-exhaustive enumeration + property-based testing (proptest) against a reference cascade"),
 "C20": ("exploration",
   "Reference-model oracle: an independent right-to-left selector matcher with backtracking over the oracle DOM; a single colour rule on a generated selector list must colour exactly the text under matching elements, once per matching ancestor (full annotation vectors). Selectors are derived from the document's own elements (so they match) or random; exhaustive :nth-child(an+b) for a,b in -5..=5 in 4 spellings on sibling lists of length 0..=8.",
   "Trusted: the reference matcher (HTML no-quirks rules); table-free documents.",
   "bounded-exhaustive enumeration + property-based testing (proptest) against a reference selector matcher"),
}

ORDER = ["C01","C02","C03","C04","C05","C06","C07","C08","C09","C10","C11","C12","C13","C14","C15","C16","C17","C18","C19","C20"]
NOT_YET = "check under construction in this session; will be claimed once its check runs clean on the unchanged tree"

def main():
    checks = []
    for pid in ORDER:
        if pid not in CHECKS: continue
        level, text, note, tech = CHECKS[pid]
        checks.append({
            "property_id": pid,
            "quick_cmd": f"./run.sh {pid} quick",
            "thorough_cmd": f"./run.sh {pid} thorough",
            "evidence_file": f"/verif/evidence/{pid}.json",
            "replay_cmd_template": f"./run.sh {pid} quick --replay {{path}}",
            "engine": "check",
            "level_claimed": {"category": level, "text": text, "design_ref": f"DESIGN.md section 3, {pid}"},
            "level_note": note,
            "technique": tech,
        })
    m = {
        "version": 1,
        "setup_cmd": "cd /verif/harness && CARGO_NET_OFFLINE=true cargo build --release --offline && (cd fuzz && CARGO_NET_OFFLINE=true cargo +nightly fuzz build >/dev/null 2>&1 || echo 'note: libFuzzer targets not pre-built (they are built on demand by the thorough tier)')",
        "hooks": {
            "guard": "html2text_verif",
            "enable": "none needed: every property is observable through the public API; the guard name (RUSTFLAGS --cfg html2text_verif) is reserved and unused",
            "baseline_off_cmd": "cd /repo && cargo test --workspace --no-fail-fast --offline",
            "source_commits": [],
            "add_only": True,
        },
        "engines": [{
            "name": "check", "path": "/verif/harness",
            "serves_properties": [c["property_id"] for c in checks],
            "kind_free_text": "Rust binary: sharded proptest runner (16 shards seeded from VERIF_SEED), bounded-exhaustive enumerators, JSON delta-debugging minimiser, replay, evidence writer, known-findings replay, hang watchdog",
        }, {
            "name": "libfuzzer", "path": "/verif/harness/fuzz",
            "serves_properties": ["C01", "C02", "C03", "C10", "C11", "C17"],
            "kind_free_text": "cargo-fuzz / libFuzzer targets fuzz_render, fuzz_struct, fuzz_css with the semantic oracles of the harness library inside the target; quick tier replays /verif/corpus through the same oracles in-process, thorough tier runs -fork=16 campaigns on a fresh corpus copy and converts artifacts into replay files",
        }],
        "checks": checks,
        "not_applicable": [{"property_id": p, "reason": NOT_YET} for p in ORDER if p not in CHECKS],
        "notes": "See DESIGN.md. KNOWN_FINDINGS.txt lists open findings (replayed on every run, reported as KNOWN-FINDING) and fixed ones (fix: commits in /repo).",
    }
    json.dump(m, open('/verif/MANIFEST.json','w'), indent=2)
    print("wrote MANIFEST.json with", len(checks), "checks")

if __name__ == "__main__":
    main()
