//! Structural minimisation of a failing case, generic over any serde-serialisable case type.
//!
//! proptest's own shrinking stalls on bulky recursive documents, so after it returns the case is
//! reduced further by delta debugging over its JSON form: delete array chunks / elements, hoist the
//! elements of a nested array in place of their parent element, reduce numbers, clear booleans,
//! options and strings. A candidate is kept when it still deserialises to the case type and the same
//! oracle still fails with the same failure category.
use serde_json::Value;
use std::time::Instant;

#[derive(Clone, Debug)]
enum Step {
    Key(String),
    Idx(usize),
}

type Path = Vec<Step>;

fn get<'a>(v: &'a Value, p: &[Step]) -> Option<&'a Value> {
    let mut cur = v;
    for s in p {
        cur = match s {
            Step::Key(k) => cur.get(k)?,
            Step::Idx(i) => cur.get(*i)?,
        };
    }
    Some(cur)
}

fn get_mut<'a>(v: &'a mut Value, p: &[Step]) -> Option<&'a mut Value> {
    let mut cur = v;
    for s in p {
        cur = match s {
            Step::Key(k) => cur.get_mut(k)?,
            Step::Idx(i) => cur.get_mut(*i)?,
        };
    }
    Some(cur)
}

fn walk(v: &Value, path: &mut Path, out: &mut Vec<Path>) {
    out.push(path.clone());
    match v {
        Value::Array(a) => {
            for (i, x) in a.iter().enumerate() {
                path.push(Step::Idx(i));
                walk(x, path, out);
                path.pop();
            }
        }
        Value::Object(m) => {
            for (k, x) in m {
                path.push(Step::Key(k.clone()));
                walk(x, path, out);
                path.pop();
            }
        }
        _ => {}
    }
}

/// Arrays nested inside `v` (not descending more than `depth` levels), as relative paths.
fn nested_arrays(v: &Value, depth: usize, rel: &mut Path, out: &mut Vec<Path>) {
    if depth == 0 || out.len() >= 8 {
        return;
    }
    match v {
        Value::Array(a) => {
            if !rel.is_empty() {
                out.push(rel.clone());
            }
            for (i, x) in a.iter().enumerate().take(6) {
                rel.push(Step::Idx(i));
                nested_arrays(x, depth - 1, rel, out);
                rel.pop();
            }
        }
        Value::Object(m) => {
            for (k, x) in m {
                rel.push(Step::Key(k.clone()));
                nested_arrays(x, depth - 1, rel, out);
                rel.pop();
            }
        }
        _ => {}
    }
}

pub fn category(msg: &str) -> String {
    let first = msg.lines().next().unwrap_or("");
    match first.find(':') {
        Some(i) => first[..i].to_string(),
        None => first.chars().take(40).collect(),
    }
}

/// Minimise `start` (which fails with `msg`). `test` returns Some(message) when the candidate
/// is a valid case and the oracle fails on it.
pub fn minimise(start: Value, msg: &str, deadline: Instant, test: &dyn Fn(&Value) -> Option<String>) -> Value {
    let cat = category(msg);
    let still = |v: &Value| -> bool {
        match test(v) {
            Some(m) => category(&m) == cat,
            None => false,
        }
    };
    let mut cur = start;
    let mut progress = true;
    while progress && Instant::now() < deadline {
        progress = false;
        // pass 1: array chunk removal and hoisting, outermost first
        let mut paths = vec![];
        walk(&cur, &mut vec![], &mut paths);
        let array_paths: Vec<Path> = paths
            .iter()
            .filter(|p| matches!(get(&cur, p), Some(Value::Array(_))))
            .cloned()
            .collect();
        'arrays: for p in &array_paths {
            if Instant::now() > deadline {
                break;
            }
            let Some(Value::Array(a)) = get(&cur, p) else { continue };
            let len = a.len();
            if len == 0 {
                continue;
            }
            let mut chunk = len;
            while chunk >= 1 {
                let mut start = 0;
                while start < len {
                    let Some(Value::Array(a)) = get(&cur, p) else { continue 'arrays };
                    if start >= a.len() {
                        break;
                    }
                    let end = (start + chunk).min(a.len());
                    let mut cand = cur.clone();
                    if let Some(Value::Array(ca)) = get_mut(&mut cand, p) {
                        ca.drain(start..end);
                    }
                    if still(&cand) {
                        cur = cand;
                        progress = true;
                        // stay at the same start (elements shifted)
                    } else {
                        start += chunk;
                    }
                    if Instant::now() > deadline {
                        break 'arrays;
                    }
                }
                if chunk == 1 {
                    break;
                }
                chunk /= 2;
            }
            // hoisting: replace element i by the elements of an array nested inside it
            let mut i = 0;
            while i < a_len(&cur, p) {
                let elem = match get(&cur, p) {
                    Some(Value::Array(a)) => a[i].clone(),
                    _ => break,
                };
                let mut rels = vec![];
                nested_arrays(&elem, 7, &mut vec![], &mut rels);
                let mut hoisted = false;
                for rel in rels {
                    let Some(Value::Array(inner)) = get(&elem, &rel) else { continue };
                    let inner = inner.clone();
                    let mut cand = cur.clone();
                    if let Some(Value::Array(ca)) = get_mut(&mut cand, p) {
                        ca.splice(i..i + 1, inner);
                    }
                    if still(&cand) {
                        cur = cand;
                        progress = true;
                        hoisted = true;
                        break;
                    }
                    if Instant::now() > deadline {
                        break 'arrays;
                    }
                }
                if !hoisted {
                    i += 1;
                }
            }
        }
        // pass 2: scalars
        let mut paths = vec![];
        walk(&cur, &mut vec![], &mut paths);
        for p in &paths {
            if Instant::now() > deadline {
                break;
            }
            let Some(v) = get(&cur, p) else { continue };
            let mut cands: Vec<Value> = vec![];
            match v {
                Value::Bool(true) => cands.push(Value::Bool(false)),
                Value::Number(n) => {
                    if let Some(x) = n.as_i64() {
                        for y in [0i64, 1, x / 2, x - 1] {
                            if y != x && y.abs() < x.abs() || (y == 0 && x != 0) {
                                cands.push(Value::from(y));
                            }
                        }
                    } else if let Some(x) = n.as_u64() {
                        for y in [0u64, 1, x / 2, x - 1] {
                            if y < x {
                                cands.push(Value::from(y));
                            }
                        }
                    }
                }
                Value::String(s) if !s.is_empty() => {
                    cands.push(Value::String(String::new()));
                    let n = s.chars().count();
                    if n > 1 {
                        cands.push(Value::String(s.chars().take(n / 2).collect()));
                        cands.push(Value::String(s.chars().take(1).collect()));
                    }
                }
                Value::Object(_) | Value::Array(_) => {
                    // Option<...> -> null (only accepted if the type allows it)
                    if !p.is_empty() {
                        cands.push(Value::Null);
                    }
                }
                _ => {}
            }
            for c in cands {
                let mut cand = cur.clone();
                if let Some(slot) = get_mut(&mut cand, p) {
                    *slot = c;
                }
                if cand != cur && still(&cand) {
                    cur = cand;
                    progress = true;
                    break;
                }
            }
        }
    }
    cur
}

fn a_len(v: &Value, p: &[Step]) -> usize {
    match get(v, p) {
        Some(Value::Array(a)) => a.len(),
        _ => 0,
    }
}
