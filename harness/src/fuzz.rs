//! Oracles for the libFuzzer targets (byte-level, coverage-guided) and for replaying their corpora
//! and artifacts in-process. Every oracle returns Err((property id, message)) on a violation.
use crate::cfg::{render, render_lines, olines_to_string, staged_renders, CfgSpec, Deco, DecoStrings, Rend, StagedKind};
use crate::engine::Stats;
use crate::gen::{Attrs, Block, Cell, Cls, DItem, Doc, ITag, Inline, Item, PreTok, Row, Table, Txt};
use crate::props::common::DocCase;
use crate::props::{c02, c03, c11, c17};
use crate::util::{line_width, short};
use arbitrary::Unstructured;

pub type Viol = (&'static str, String);

/// Decode the configuration prefix of a `fuzz_render` input: 7 bytes, then HTML.
pub fn decode_render_input(data: &[u8]) -> Option<(CfgSpec, usize, &[u8])> {
    if data.len() < 7 {
        return None;
    }
    let (h, html) = data.split_at(7);
    let deco = match h[0] % 5 {
        0 => Deco::Plain,
        1 => Deco::PlainNoDecorate,
        2 => Deco::Rich,
        3 => Deco::Trivial,
        _ => {
            let mut d = DecoStrings::plain_like();
            d.quote = ["> ", "", ">> ", "-"][(h[0] / 5) as usize % 4].to_string();
            d.ul = ["* ", "- ", "", "=> "][(h[0] / 20) as usize % 4].to_string();
            d.em = ("_".into(), "_".into());
            Deco::Custom(d)
        }
    };
    let f = h[1];
    let g = h[2];
    let width = match h[5] {
        0..=200 => h[5] as usize,
        201..=230 => (h[6] as usize) % 8,
        231..=245 => 100_000,
        246..=250 => usize::MAX,
        _ => usize::MAX - (h[6] as usize % 4),
    };
    let cfg = CfgSpec {
        deco,
        overflow: f & 1 != 0,
        min_wrap: if f & 2 != 0 { Some(h[3] as usize % 12) } else { None },
        max_wrap: if f & 4 != 0 { Some(h[4] as usize % 40) } else { None },
        pad: f & 8 != 0 && width <= 200,
        raw: f & 16 != 0,
        no_borders: f & 32 != 0,
        no_link_wrap: f & 64 != 0,
        footnotes: if f & 128 != 0 { Some(g & 1 != 0) } else { None },
        strikeout: if g & 2 != 0 { Some(g & 4 != 0) } else { None },
        decorate: g & 8 != 0,
        doc_css: g & 16 != 0,
        user_css: if g & 32 != 0 { vec!["p{color:red} .a{display:none} li:nth-child(2n+1){background:#010203}".into()] } else { vec![] },
        agent_css: vec![],
    };
    Some((cfg, width, html))
}

fn ok_or_narrow(r: &Rend<String>, route: &str) -> Result<(), Viol> {
    match r {
        Rend::Ok(_) | Rend::TooNarrow | Rend::CssErr => Ok(()),
        other => Err(("C01", format!("{}: {} {}", route, other.kind(), other.bad().unwrap_or_default()))),
    }
}

/// Oracle of `fuzz_render`: C01 (totality, all routes), C02 (width bound), C10 (routes agree),
/// C11 (width 0, overflow relations), C03 (trivial decorator conservation).
pub fn render_oracle(data: &[u8]) -> Result<(), Viol> {
    let Some((cfg, w, html)) = decode_render_input(data) else { return Ok(()) };
    let mut st = Stats::default();
    let r = render(&cfg, html, w);
    ok_or_narrow(&r, "string_from_read")?;
    let rl = render_lines(&cfg, html, w).map(|l| olines_to_string(&l));
    ok_or_narrow(&rl, "lines_from_read")?;
    if r != rl {
        return Err(("C10", format!("string_from_read and lines_from_read differ (w={})", w)));
    }
    match staged_renders(&cfg, html, &[(w, StagedKind::Str), (w.min(40), StagedKind::Lines), (w, StagedKind::Str)]) {
        Rend::Ok(v) => {
            for x in &v {
                ok_or_narrow(x, "staged")?;
            }
            if v[0] != r || v[2] != r {
                return Err(("C10", format!("staged rendering differs from one-shot rendering (w={})", w)));
            }
        }
        Rend::CssErr | Rend::TooNarrow => {}
        other => return Err(("C01", format!("staged: {} {}", other.kind(), other.bad().unwrap_or_default()))),
    }
    // C11
    if w == 0 && !matches!(r, Rend::TooNarrow | Rend::CssErr) {
        return Err(("C11", "width 0 did not give TooNarrow".into()));
    }
    if w >= 1 && w <= 200 {
        let mut over = cfg.clone();
        over.overflow = true;
        let ro = render(&over, html, w);
        match (&r, &ro) {
            (_, Rend::CssErr) => {}
            (_, Rend::TooNarrow) => return Err(("C11", format!("allow_width_overflow still TooNarrow at width {}", w))),
            (Rend::Ok(a), Rend::Ok(b)) if !cfg.overflow && a != b => return Err(("C11", format!("allow_width_overflow changed a successful rendering (w={})", w))),
            (_, other) => ok_or_narrow(other, "overflow")?,
        }
    }
    // C02
    if !cfg.overflow && !cfg.no_link_wrap && w >= 1 && w <= 200 {
        if let Rend::Ok(s) = &r {
            if let Some(l) = s.lines().find(|l| line_width(l) > w) {
                return Err(("C02", format!("line wider than width {}: {:?}", w, short(l, 200))));
            }
        }
    }
    // C03 (trivial decorator, no footnotes)
    if cfg.deco == Deco::Trivial && !cfg.footnotes_on() && !cfg.doc_css && cfg.user_css.is_empty() && !cfg.decorate && w >= 1 && w <= 200 && !cfg.overflow {
        let dc = DocCase { doc: Doc::default(), muts: vec![], width: w, cfg: cfg.clone() };
        c03::check_bytes(&dc, html.to_vec(), &mut st, true).map_err(|e| ("C03", e))?;
    }
    Ok(())
}

/// Oracle of `fuzz_css`: C17 (a).
pub fn css_oracle(data: &[u8]) -> Result<(), Viol> {
    let css = String::from_utf8_lossy(data).to_string();
    let doc = Doc::of(vec![
        Block::P(Attrs { id: Some("i0".into()), class: vec!["a".into()], style: None }, vec![Inline::Text(Txt::simple(3)), Inline::El(ITag::Em, Attrs::none(), vec![Inline::Text(Txt::simple(2))])]),
        Block::Ul(Attrs::none(), vec![Item { attrs: Attrs::none(), kids: vec![Block::Inl(vec![Inline::Text(Txt::simple(1))])] }, Item { attrs: Attrs::none(), kids: vec![Block::Inl(vec![Inline::Text(Txt::simple(4))])] }]),
    ]);
    let case = c17::SoupCase { css, doc, width: 20 };
    let mut st = Stats::default();
    c17::check_soup(&case, &mut st).map_err(|e| ("C17", e))
}

fn arb_txt(u: &mut Unstructured) -> arbitrary::Result<Txt> {
    let n = u.int_in_range(1..=4)?;
    let mut words = vec![];
    for _ in 0..n {
        words.push(u.int_in_range(1u8..=14)?);
    }
    Ok(Txt { words, lead: u.arbitrary()?, trail: u.arbitrary()?, cls: match u.int_in_range(0..=9)? { 0 | 1 => Cls::W, 2 => Cls::C, _ => Cls::N } })
}

fn arb_inlines(u: &mut Unstructured, depth: u32) -> arbitrary::Result<Vec<Inline>> {
    let n = u.int_in_range(1..=3)?;
    let mut v = vec![];
    for _ in 0..n {
        let k = if depth == 0 { u.int_in_range(0..=2)? } else { u.int_in_range(0..=6)? };
        v.push(match k {
            0 | 1 | 2 => Inline::Text(arb_txt(u)?),
            3 => Inline::Br,
            4 => Inline::Img { src: "s".into(), alt: Some(arb_txt(u)?), attrs: Attrs::none() },
            5 => {
                let tags = [ITag::Em, ITag::Strong, ITag::Code, ITag::S, ITag::Span, ITag::Sup, ITag::B];
                Inline::El(tags[u.int_in_range(0..=tags.len() - 1)?], Attrs::none(), arb_inlines(u, depth - 1)?)
            }
            _ => Inline::A { href: Some(format!("//{}/", u.int_in_range(0..=99)?)), name: None, attrs: Attrs::none(), kids: arb_inlines(u, 0)? },
        });
    }
    Ok(v)
}

fn arb_blocks(u: &mut Unstructured, depth: u32) -> arbitrary::Result<Vec<Block>> {
    let n = u.int_in_range(1..=3)?;
    let mut v = vec![];
    for _ in 0..n {
        let k = if depth == 0 { u.int_in_range(0..=3)? } else { u.int_in_range(0..=10)? };
        v.push(match k {
            0 | 1 => Block::P(Attrs::none(), arb_inlines(u, 1)?),
            2 => Block::Inl(arb_inlines(u, 1)?),
            3 => Block::H(u.int_in_range(1..=6)?, Attrs::none(), arb_inlines(u, 0)?),
            4 => Block::Pre(Attrs::none(), vec![vec![PreTok::Word(u.int_in_range(1..=9)?), PreTok::Spaces(u.int_in_range(1..=4)?), PreTok::Word(u.int_in_range(1..=20)?)]]),
            5 => Block::Quote(Attrs::none(), arb_blocks(u, depth - 1)?),
            6 | 7 => {
                let m = u.int_in_range(1..=3)?;
                let mut items = vec![];
                for _ in 0..m {
                    items.push(Item { attrs: Attrs::none(), kids: arb_blocks(u, depth - 1)? });
                }
                if k == 6 {
                    Block::Ul(Attrs::none(), items)
                } else {
                    Block::Ol(Attrs::none(), if u.arbitrary()? { Some(u.int_in_range(-20i64..=120)?) } else { None }, items)
                }
            }
            8 => Block::Dl(Attrs::none(), vec![DItem { dt: true, attrs: Attrs::none(), kids: arb_blocks(u, 0)? }, DItem { dt: false, attrs: Attrs::none(), kids: arb_blocks(u, depth - 1)? }]),
            _ => {
                let rows = u.int_in_range(1..=3)?;
                let mut rs = vec![];
                for _ in 0..rows {
                    let cells = u.int_in_range(1..=4)?;
                    let mut cs = vec![];
                    for _ in 0..cells {
                        let kids = if u.int_in_range(0..=4)? == 0 { vec![] } else { arb_blocks(u, depth - 1)? };
                        cs.push(Cell { th: u.arbitrary()?, colspan: [1, 1, 1, 2, 3, 0][u.int_in_range(0..=5)?], attrs: Attrs::none(), kids });
                    }
                    rs.push(Row { attrs: Attrs::none(), cells: cs });
                }
                Block::Table(Table { attrs: Attrs::none(), head_rows: u.int_in_range(0..=1)?, sections: u.arbitrary()?, rows: rs })
            }
        });
    }
    Ok(v)
}

/// Decode a structured document, width and bounded configuration from fuzzer bytes.
pub fn decode_struct_input(data: &[u8]) -> Option<DocCase> {
    let mut u = Unstructured::new(data);
    let width = u.int_in_range(1usize..=120).ok()?;
    let f: u8 = u.arbitrary().ok()?;
    let g: u8 = u.arbitrary().ok()?;
    let cfg = CfgSpec {
        deco: [Deco::Plain, Deco::Rich, Deco::Trivial, Deco::PlainNoDecorate][(f % 4) as usize].clone(),
        min_wrap: if f & 4 != 0 { Some((g % 12) as usize) } else { None },
        max_wrap: if f & 8 != 0 { Some(1 + (g % 50) as usize) } else { None },
        pad: f & 16 != 0,
        raw: f & 32 != 0,
        no_borders: f & 64 != 0,
        footnotes: if f & 128 != 0 { Some(g & 1 != 0) } else { None },
        ..Default::default()
    };
    let blocks = arb_blocks(&mut u, 2).ok()?;
    let mut doc = Doc::of(blocks);
    c03::sanitize_hrefs(&mut doc.blocks);
    if !doc.valid() {
        return None;
    }
    Some(DocCase { doc, muts: vec![], width, cfg })
}

/// Oracle of `fuzz_struct`: C02, C03 and C11 on structured documents.
pub fn struct_oracle(data: &[u8]) -> Result<(), Viol> {
    let Some(case) = decode_struct_input(data) else { return Ok(()) };
    let mut st = Stats::default();
    c02::check_width(&case, &mut st).map_err(|e| (if e.starts_with("PANIC") { "C01" } else { "C02" }, e))?;
    c03::check_grammar(&case, &mut st).map_err(|e| (if e.starts_with("PANIC") { "C01" } else { "C03" }, e))?;
    c11::check_relations(&case, &mut st).map_err(|e| (if e.starts_with("PANIC") { "C01" } else { "C11" }, e))?;
    Ok(())
}

pub fn oracle(target: &str, data: &[u8]) -> Result<(), Viol> {
    match target {
        "fuzz_render" => render_oracle(data),
        "fuzz_css" => css_oracle(data),
        "fuzz_struct" => struct_oracle(data),
        _ => Err(("C01", format!("unknown fuzz target {}", target))),
    }
}
