use std::path::PathBuf;
use verif::engine::{run_property, run_replay, Ctx, Tier};

fn usage() -> ! {
    eprintln!("usage: check <ID> [--tier quick|thorough] [--replay FILE] [--sub NAME]");
    std::process::exit(2)
}

fn main() {
    verif::cfg::install_quiet_panic_hook();
    let args: Vec<String> = std::env::args().collect();
    if args.len() < 2 {
        usage();
    }
    let id = args[1].clone();
    if id == "worker-ladder" {
        let n = |i: usize| args[i].parse::<usize>().unwrap();
        let code = verif::props::c01::ladder_worker(n(2), n(3), args[4] == "1", n(5));
        std::process::exit(code);
    }
    if id == "probe" {
        // check probe WIDTH CFGJSON HTML  — ad-hoc rendering for triage
        let w: usize = args[2].parse().unwrap();
        let cfg: verif::cfg::CfgSpec = serde_json::from_str(&args[3]).expect("cfg json");
        let html = args[4].clone();
        match verif::cfg::render(&cfg, html.as_bytes(), w) {
            verif::cfg::Rend::Ok(s) => {
                for l in s.lines() {
                    println!("|{}| {}", l, verif::util::sw(l));
                }
            }
            r => println!("{:?}", r),
        }
        if args.len() > 5 {
            println!("{:?}", verif::cfg::render_lines(&cfg, html.as_bytes(), w));
        }
        return;
    }
    let mut tier = match std::env::var("VERIF_TIER").ok().as_deref() {
        Some("thorough") => Tier::Thorough,
        _ => Tier::Quick,
    };
    let mut replay: Option<PathBuf> = None;
    let mut sub: Option<String> = None;
    let mut i = 2;
    while i < args.len() {
        match args[i].as_str() {
            "--tier" => {
                i += 1;
                tier = match args.get(i).map(|s| s.as_str()) {
                    Some("quick") => Tier::Quick,
                    Some("thorough") => Tier::Thorough,
                    _ => usage(),
                };
            }
            "--replay" => {
                i += 1;
                replay = Some(PathBuf::from(args.get(i).cloned().unwrap_or_else(|| usage())));
            }
            "--sub" => {
                i += 1;
                sub = Some(args.get(i).cloned().unwrap_or_else(|| usage()));
            }
            _ => usage(),
        }
        i += 1;
    }
    let seed: u64 = std::env::var("VERIF_SEED")
        .ok()
        .and_then(|s| s.trim().parse::<i128>().ok())
        .map(|v| v as u64)
        .unwrap_or(1);
    let verif_dir = std::env::var("VERIF_DIR").map(PathBuf::from).unwrap_or_else(|_| PathBuf::from("/verif"));
    let ctx = Ctx {
        seed,
        tier,
        threads: std::env::var("VERIF_THREADS").ok().and_then(|s| s.parse().ok()).unwrap_or(16),
        verif_dir,
        home_dir: std::env::var("VERIF_HOME").map(PathBuf::from).unwrap_or_else(|_| PathBuf::from("/verif")),
        scale: std::env::var("VERIF_SCALE").ok().and_then(|s| s.parse().ok()).unwrap_or(1.0),
        hang_secs: std::env::var("VERIF_HANG_SECS").ok().and_then(|s| s.parse().ok()).unwrap_or(60),
    };
    let Some(prop) = verif::props::get(&id) else {
        eprintln!("unknown property {}", id);
        std::process::exit(2)
    };
    let code = match replay {
        Some(p) => run_replay(&prop, &p),
        None => run_property(&ctx, &prop, sub.as_deref()),
    };
    std::process::exit(code);
}
