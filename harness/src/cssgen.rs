//! CSS: generated stylesheets (supported grammar), serialisation variants, and the harness's own
//! reference semantics (selector matching over the oracle DOM, cascade).
use crate::odom::Arena;
use proptest::prelude::*;
use serde::{Deserialize, Serialize};

// ---------------------------------------------------------------------------------------------
// AST

#[derive(Clone, Debug, Serialize, Deserialize, PartialEq, Eq, Hash)]
pub enum Nth {
    Odd,
    Even,
    /// an+b
    AnB(i32, i32),
    /// an
    An(i32),
    /// b
    B(i32),
}

impl Nth {
    pub fn ab(&self) -> (i64, i64) {
        match self {
            Nth::Odd => (2, 1),
            Nth::Even => (2, 0),
            Nth::AnB(a, b) => (*a as i64, *b as i64),
            Nth::An(a) => (*a as i64, 0),
            Nth::B(b) => (0, *b as i64),
        }
    }
    /// Serialise; `style` picks among equivalent spellings.
    pub fn to_css(&self, style: u8) -> String {
        let coef = |a: i32| -> String {
            match a {
                1 => {
                    if style % 2 == 0 {
                        "n".into()
                    } else {
                        "+n".into()
                    }
                }
                -1 => "-n".into(),
                a => format!("{}n", a),
            }
        };
        match self {
            Nth::Odd => "odd".into(),
            Nth::Even => "even".into(),
            Nth::An(a) => coef(*a),
            Nth::B(b) => {
                if *b >= 0 && style % 3 == 1 {
                    format!("+{}", b)
                } else {
                    format!("{}", b)
                }
            }
            Nth::AnB(a, b) => {
                let sign = if *b < 0 { '-' } else { '+' };
                let mag = b.unsigned_abs();
                match style % 4 {
                    0 => format!("{}{}{}", coef(*a), sign, mag),
                    1 => format!("{} {} {}", coef(*a), sign, mag),
                    2 => format!("{} {}{}", coef(*a), sign, mag),
                    _ => format!(" {}{} {} ", coef(*a), sign, mag),
                }
            }
        }
    }
}

#[derive(Clone, Debug, Serialize, Deserialize, PartialEq, Eq, Hash)]
pub enum Part {
    Class(String),
    Id(String),
    Nth(Nth),
}

#[derive(Clone, Debug, Serialize, Deserialize, PartialEq, Eq, Hash)]
pub struct Compound {
    /// element name, "*" or none
    pub elem: Option<String>,
    pub parts: Vec<Part>,
}

#[derive(Clone, Copy, Debug, Serialize, Deserialize, PartialEq, Eq, Hash)]
pub enum Comb {
    Desc,
    Child,
}

/// Compounds left to right with the combinator *before* each (the first one's is ignored).
#[derive(Clone, Debug, Serialize, Deserialize, PartialEq, Eq, Hash)]
pub struct Complex {
    pub steps: Vec<(Comb, Compound)>,
}

#[derive(Clone, Debug, Serialize, Deserialize, PartialEq, Eq, Hash)]
pub enum Prop {
    Color(u32),
    BgColor(u32),
    DisplayNone,
    /// height:0 / max-height:0 plus overflow:hidden in the same block
    ZeroHeightHidden(bool),
    /// the same idiom with a further non-zero height / max-height after the zero one
    /// (`max-height:0;height:20px;overflow:hidden` | `height:0;max-height:100px;overflow:hidden`)
    ZeroHeightMixed(bool),
    /// other spellings of the idiom that hide: zero lengths with a unit, `overflow-y` (index into ZERO_UNIT)
    ZeroHeightUnit(u8),
    /// near misses of the idiom, which must NOT hide (index into NEAR_MISS)
    NearMiss(u8),
}

/// (height property, zero length, overflow property): all hide
pub const ZERO_UNIT: [(&str, &str, &str); 6] = [
    ("height", "0px", "overflow"),
    ("max-height", "0em", "overflow"),
    ("height", "0.0pt", "overflow"),
    ("height", "0", "overflow-y"),
    ("max-height", "0mm", "overflow-y"),
    ("height", "0.00ex", "overflow"),
];

/// declaration blocks that resemble the idiom and hide nothing
pub const NEAR_MISS: [&[(&str, &str)]; 10] = [
    &[("height", "0"), ("overflow", "visible")],
    &[("max-height", "0"), ("overflow", "auto")],
    &[("height", "0px"), ("overflow", "scroll")],
    &[("height", "20px"), ("overflow", "hidden")],
    &[("max-height", "0.5em"), ("overflow-y", "hidden")],
    &[("overflow", "hidden")],
    &[("max-height", "0")],
    &[("height", "0"), ("overflow-y", "visible")],
    &[("height", "10pt"), ("max-height", "1px"), ("overflow", "hidden")],
    &[("overflow-y", "hidden"), ("overflow", "hidden")],
];

#[derive(Clone, Debug, Serialize, Deserialize, PartialEq, Eq, Hash)]
pub struct Decl {
    pub prop: Prop,
    pub important: bool,
}

#[derive(Clone, Debug, Serialize, Deserialize, PartialEq, Eq, Hash)]
pub struct Rule {
    pub selectors: Vec<Complex>,
    pub decls: Vec<Decl>,
}

pub type Sheet = Vec<Rule>;

// ---------------------------------------------------------------------------------------------
// serialisation

/// An identifier, sometimes with its first character written as a CSS escape: `\\48 d`, `\\000048d`
/// (six hex digits end the escape by themselves, even before another hex digit), `\\48\td`.
pub fn escaped_ident(name: &str, style: u8) -> String {
    let mut ch = name.chars();
    let Some(first) = ch.next() else { return String::new() };
    let rest: String = ch.collect();
    match style % 8 {
        5 => format!("\\{:x} {}", first as u32, rest),
        // (a white-space character right after the digits would belong to the escape, so when
        // nothing of the name follows, the terminator is written out)
        6 => format!("\\{:06x}{}{}", first as u32, rest, if rest.is_empty() { " " } else { "" }),
        7 => format!("\\{:04X}\t{}", first as u32, rest),
        _ => name.to_string(),
    }
}

impl Compound {
    pub fn to_css(&self, style: u8) -> String {
        let mut s = String::new();
        if let Some(e) = &self.elem {
            s.push_str(e);
        }
        for p in &self.parts {
            match p {
                Part::Class(c) => {
                    s.push('.');
                    s.push_str(&escaped_ident(c, style));
                }
                Part::Id(i) => {
                    s.push('#');
                    s.push_str(&escaped_ident(i, style.rotate_left(3)));
                }
                Part::Nth(n) => {
                    s.push_str(":nth-child(");
                    s.push_str(&n.to_css(style));
                    s.push(')');
                }
            }
        }
        if s.is_empty() {
            s.push('*');
        }
        s
    }
    pub fn is_universal_only(&self) -> bool {
        self.parts.is_empty() && self.elem.as_deref().map(|e| e == "*").unwrap_or(true)
    }
}

impl Complex {
    pub fn to_css(&self, style: u8) -> String {
        let mut s = String::new();
        for (i, (c, comp)) in self.steps.iter().enumerate() {
            if i > 0 {
                match c {
                    Comb::Desc => s.push(' '),
                    Comb::Child => s.push_str(match style % 3 {
                        0 => " > ",
                        1 => ">",
                        _ => "> ",
                    }),
                }
            }
            s.push_str(&comp.to_css(style.wrapping_add(i as u8)));
        }
        s
    }
    /// (ids, classes + pseudo-classes, element names)
    pub fn specificity(&self) -> (u32, u32, u32) {
        let mut sp = (0, 0, 0);
        for (_, c) in &self.steps {
            if let Some(e) = &c.elem {
                if e != "*" {
                    sp.2 += 1;
                }
            }
            for p in &c.parts {
                match p {
                    Part::Id(_) => sp.0 += 1,
                    Part::Class(_) | Part::Nth(_) => sp.1 += 1,
                }
            }
        }
        sp
    }
}

pub fn colour_hex(c: u32) -> String {
    format!("#{:06x}", c & 0xffffff)
}

/// `rgb(r,g,b)` in one of three spellings (compact, spaced, upper case with inner padding).
pub fn colour_rgb_fn(c: u32, style: u8) -> String {
    let (r, g, b) = ((c >> 16) & 0xff, (c >> 8) & 0xff, c & 0xff);
    match style % 3 {
        0 => format!("rgb({},{},{})", r, g, b),
        1 => format!("rgb({}, {}, {})", r, g, b),
        _ => format!("RGB( {} , {} , {} )", r, g, b),
    }
}

/// The value of a colour written as `#rrggbb` (or bare hex digits) or `rgb(r, g, b)`.
pub fn colour_value(s: &str) -> Option<u32> {
    let t = s.trim();
    let low = t.to_ascii_lowercase();
    if let Some(args) = low.strip_prefix("rgb(").and_then(|x| x.strip_suffix(')')) {
        let v: Vec<u32> = args.split(',').filter_map(|x| x.trim().parse().ok()).collect();
        if v.len() == 3 && v.iter().all(|x| *x < 256) {
            return Some((v[0] << 16) | (v[1] << 8) | v[2]);
        }
        return None;
    }
    u32::from_str_radix(t.trim_start_matches('#'), 16).ok()
}

impl Decl {
    pub fn to_css(&self, upper: bool) -> String {
        let imp = if self.important { " !important" } else { "" };
        let name = |n: &str| if upper { n.to_uppercase() } else { n.to_string() };
        let hex = |c: u32| if upper { colour_hex(c).to_uppercase() } else { colour_hex(c) };
        // one colour in four is written with the rgb() function (three spellings), the rest as #rrggbb
        let spell = |c: u32, hex: String| match (c ^ (c >> 8) ^ (c >> 16)) % 8 {
            0 => colour_rgb_fn(c, 0),
            1 => colour_rgb_fn(c, if upper { 2 } else { 1 }),
            _ => hex,
        };
        match &self.prop {
            Prop::Color(c) => format!("{}:{}{}", name("color"), spell(*c, hex(*c)), imp),
            Prop::BgColor(c) => format!("{}:{}{}", name("background-color"), spell(*c, hex(*c)), imp),
            Prop::DisplayNone => format!("{}:none{}", name("display"), imp),
            Prop::ZeroHeightHidden(max) => format!("{}:0{};{}:hidden{}", name(if *max { "max-height" } else { "height" }), imp, name("overflow"), imp),
            Prop::ZeroHeightMixed(max) => {
                if *max {
                    format!("{}:0{};{}:20px;{}:hidden{}", name("max-height"), imp, name("height"), name("overflow"), imp)
                } else {
                    format!("{}:0{};{}:100px;{}:hidden{}", name("height"), imp, name("max-height"), name("overflow"), imp)
                }
            }
            Prop::ZeroHeightUnit(k) => {
                let (h, z, o) = ZERO_UNIT[*k as usize % ZERO_UNIT.len()];
                format!("{}:{}{};{}:hidden{}", name(h), z, imp, name(o), imp)
            }
            Prop::NearMiss(k) => NEAR_MISS[*k as usize % NEAR_MISS.len()].iter().map(|(p, v)| format!("{}:{}{}", name(p), v, imp)).collect::<Vec<_>>().join(";"),
        }
    }
}

/// How a sheet is written out; all variants are equivalent CSS.
#[derive(Clone, Debug, Serialize, Deserialize, PartialEq, Eq, Hash, Default)]
pub struct Variant {
    /// 0 minified, 1 spaces, 2 newlines + indentation, 3 comments wherever whitespace may go
    pub layout: u8,
    pub upper: bool,
    /// 0 final ';' present, 1 dropped, 2 doubled
    pub final_semi: u8,
    /// junk inserted between rules (indices into JUNK, by position)
    pub junk: Vec<u8>,
    /// unknown properties inserted into blocks
    pub unknown_props: bool,
    pub nth_style: u8,
    /// placement of the document's `<style>` element (gen::Doc::style_place)
    #[serde(default)]
    pub place: u8,
    /// the author sheet is split over two `<style>` elements (second half at the end of the body)
    #[serde(default)]
    pub split: bool,
    /// with `split`: the first `<style>` element is repeated, byte for byte, as a third one (its
    /// rules re-assert themselves in source order after the second element's)
    #[serde(default)]
    pub repeat: bool,
}

pub const JUNK: &[&str] = &[
    "@media print { p { color: #111111 } }",
    "@import url(\"x.css\");",
    "@font-face { font-family: x; src: url(y) }",
    "a:hover { color: #222222 }",
    "p[lang] { color: #333333 }",
    "q::selection { color: #444444 }",
    "@charset \"utf-8\";",
    "p + p { color: #555555 }",
    "x:not(.y) { color: #666666; }",
    "p ~ p { color: #777777 }",
    "@supports (display: grid) { div { display: none } }",
    ".z { colour: red; frobnicate: 1px solid }",
    // blocks with `;` inside, followed by a nested rule that would match the document if it leaked out
    "@media print { .x { margin: 0; } .a { color: #010101 } p { display: none } }",
    "@supports (display: grid) { div { margin: 0; padding: 1px; } p { display: none; } * { color: #020202 } }",
    "@font-face { font-family: x; src: url(y); } ",
    "@media screen and (max-width: 10px) { [x=\"a;b\"] { margin: 0; } li { color: #030303; } }",
    "@page :first { margin: 1in; } ",
];

/// Well-formed declarations of properties html2text does not model, or of properties it models with a
/// value that is invalid in CSS itself (never a valid value the library merely lacks); each is ignored by
/// CSS error handling. (`white-space` with an unrecognised value is deliberately not in the list: the library
/// maps every value it does not know - nowrap, pre-line, ... - to `normal`, a declared approximation.) (checked one by one against the unchanged library, before and after a
/// valid declaration).
pub const UNKNOWN_DECLS: &[&str] = &[
    "frob:nicate 3px",
    "-webkit-foo: bar(1, 2) !important",
    "margin: 0 auto",
    "font: 12px/1.5 \"A;B\", serif",
    "grid-template-areas: \"a b\" \"c d\"",
    "width: calc(100% - (2 * 3px))",
    "font-family: \"}\"",
    "font-family: '{'",
    "background-image: url(x.png)",
    "x: url(\"a;b\")",
    "margin:-0.5em",
    "filter: progid:DXImageTransform.Microsoft.gradient(startColorstr='#80000000', endColorstr='#80000000')",
    "color: bogus",
    "color: 12px",
    "display: 7",
    "height: 5",
    "overflow: #fff",
    "background-color: #12",
    "_color: #00f",
];

pub fn sheet_to_css(sheet: &Sheet, v: &Variant) -> String {
    let ws = |n: usize| -> &'static str {
        match v.layout {
            0 => "",
            1 => " ",
            2 => ["\n", "\n  ", " ", "\t", "\x0c", "\r\n", "\r", " \x0c "][n % 8],
            _ => [" /* c */ ", "/**/", " /* a\nb */\n", " ", "/***/", " /* note **/ ", "/****** banner ******/\n", "/* * / */", " /*/*/ "][n % 9],
        }
    };
    let mut s = String::new();
    let mut k = 0usize;
    let mut junk_i = 0usize;
    for rule in sheet {
        if !v.junk.is_empty() {
            let j = v.junk[junk_i % v.junk.len()];
            junk_i += 1;
            if j % 2 == 0 {
                s.push_str(JUNK[(j / 2) as usize % JUNK.len()]);
                s.push_str(if v.layout == 0 { " " } else { "\n" });
            }
        }
        for (i, sel) in rule.selectors.iter().enumerate() {
            if i > 0 {
                s.push(',');
                s.push_str(ws(k));
                k += 1;
            }
            s.push_str(&sel.to_css(v.nth_style.wrapping_add(i as u8)));
        }
        s.push_str(ws(k));
        k += 1;
        s.push('{');
        s.push_str(ws(k));
        k += 1;
        let n = rule.decls.len();
        // an unknown (or known but invalid) declaration before the first or after the last real one
        let unk = UNKNOWN_DECLS[(v.nth_style as usize + k) % UNKNOWN_DECLS.len()];
        let unk_first = (v.nth_style as usize + k / 2) % 3 != 0;
        for (i, d) in rule.decls.iter().enumerate() {
            if v.unknown_props && i == 0 && unk_first {
                s.push_str(unk);
                s.push(';');
                s.push_str(ws(k));
            }
            s.push_str(&d.to_css(v.upper));
            if i + 1 < n {
                s.push(';');
                s.push_str(ws(k));
                k += 1;
            } else {
                if v.unknown_props && !unk_first {
                    s.push(';');
                    s.push_str(ws(k));
                    s.push_str(unk);
                }
                match v.final_semi {
                    0 => s.push(';'),
                    1 => {}
                    _ => s.push_str(";;"),
                }
            }
        }
        s.push_str(ws(k));
        k += 1;
        s.push('}');
        s.push_str(ws(k));
        k += 1;
    }
    if !v.junk.is_empty() && v.junk[0] % 3 == 0 {
        s.push_str(JUNK[v.junk[0] as usize % JUNK.len()]);
    }
    s
}

pub fn canonical_css(sheet: &Sheet) -> String {
    sheet_to_css(sheet, &Variant { layout: 1, ..Default::default() })
}

// ---------------------------------------------------------------------------------------------
// reference selector matching over the oracle DOM

fn element_children(dom: &Arena, n: usize) -> Vec<usize> {
    dom.children(n).iter().copied().filter(|c| dom.is_elem(*c)).collect()
}

fn class_list<'a>(dom: &'a Arena, n: usize) -> Vec<&'a str> {
    dom.attr(n, "class").map(|c| c.split_whitespace().collect()).unwrap_or_default()
}

pub fn matches_compound(dom: &Arena, n: usize, c: &Compound) -> bool {
    if !dom.is_elem(n) {
        return false;
    }
    if let Some(e) = &c.elem {
        if e != "*" {
            // HTML element names are matched case-insensitively; the DOM stores lower case
            if dom.local_any(n).map(|l| l != e.to_ascii_lowercase()).unwrap_or(true) {
                return false;
            }
        }
    }
    for p in &c.parts {
        match p {
            Part::Class(cl) => {
                if !class_list(dom, n).iter().any(|x| x == cl) {
                    return false;
                }
            }
            Part::Id(id) => {
                if dom.attr(n, "id") != Some(id.as_str()) {
                    return false;
                }
            }
            Part::Nth(nth) => {
                let Some(parent) = dom.parent(n) else { return false };
                let sibs = element_children(dom, parent);
                let Some(pos) = sibs.iter().position(|x| *x == n) else { return false };
                let idx = pos as i64 + 1;
                let (a, b) = nth.ab();
                // exists k >= 0 with a*k + b == idx
                let ok = if a == 0 {
                    idx == b
                } else {
                    let d = idx - b;
                    d % a == 0 && d / a >= 0
                };
                if !ok {
                    return false;
                }
            }
        }
    }
    true
}

/// Standard right-to-left matching with backtracking.
pub fn matches_complex(dom: &Arena, n: usize, sel: &Complex) -> bool {
    fn go(dom: &Arena, n: usize, steps: &[(Comb, Compound)]) -> bool {
        let Some(((comb, last), rest)) = steps.split_last().map(|(l, r)| ((l.0, &l.1), r)) else { return true };
        if !matches_compound(dom, n, last) {
            return false;
        }
        if rest.is_empty() {
            return true;
        }
        match comb {
            Comb::Child => match dom.parent(n) {
                Some(p) if dom.is_elem(p) => go(dom, p, rest),
                _ => false,
            },
            Comb::Desc => {
                let mut p = dom.parent(n);
                while let Some(q) = p {
                    if dom.is_elem(q) && go(dom, q, rest) {
                        return true;
                    }
                    p = dom.parent(q);
                }
                false
            }
        }
    }
    go(dom, n, &sel.steps)
}

// ---------------------------------------------------------------------------------------------
// reference cascade

#[derive(Clone, Copy, Debug, PartialEq, Eq, Hash, Serialize, Deserialize, PartialOrd, Ord)]
pub enum Origin {
    Agent,
    User,
    Author,
}

/// One declaration that applies to an element, with everything the cascade looks at.
#[derive(Clone, Debug)]
pub struct Candidate {
    pub origin: Origin,
    pub important: bool,
    pub inline: bool,
    pub specificity: (u32, u32, u32),
    /// position in application order (agent sheet, user sheet, author sheet, inline)
    pub order: usize,
    pub prop: Prop,
}

pub fn cascade_rank(c: &Candidate) -> u8 {
    match (c.important, c.origin) {
        (false, Origin::Agent) => 0,
        (false, Origin::User) => 1,
        (false, Origin::Author) => 2,
        (true, Origin::Author) => 3,
        (true, Origin::User) => 4,
        (true, Origin::Agent) => 5,
    }
}

pub fn cascade_key(c: &Candidate) -> (u8, bool, (u32, u32, u32), usize) {
    (cascade_rank(c), c.inline, c.specificity, c.order)
}

/// The winning candidate among those setting the same property.
pub fn winner<'a>(cands: impl Iterator<Item = &'a Candidate>) -> Option<&'a Candidate> {
    cands.max_by_key(|c| cascade_key(c))
}

/// Everything that can style a document in a check.
#[derive(Clone, Debug, Default, Serialize, Deserialize, PartialEq, Eq, Hash)]
pub struct Styling {
    pub agent: Sheet,
    pub user: Sheet,
    /// author sheet = the document's `<style>` element (needs use_doc_css)
    pub author: Sheet,
}

/// `0` or a zero number with one of the length units html2text knows.
pub fn is_zero_length(val: &str) -> bool {
    let v = val.trim();
    let num = ["in", "cm", "mm", "pt", "pc", "px", "em", "ex"].iter().find_map(|u| v.strip_suffix(u)).unwrap_or(v);
    !num.is_empty() && num.chars().all(|c| c.is_ascii_digit() || c == '.') && num.parse::<f64>().map(|x| x == 0.0).unwrap_or(false)
}

/// Parse the inline style strings the generator writes: `prop:value[ !important]` separated by ';'.
pub fn parse_inline(style: &str) -> Vec<Decl> {
    let mut v = vec![];
    let mut zero = None;
    let mut hidden = None;
    for d in style.split(';') {
        let Some((k, val)) = d.split_once(':') else { continue };
        let important = val.contains("!important");
        let val = val.replace("!important", "");
        let val = val.trim();
        let hex = |s: &str| colour_value(s);
        match k.trim().to_ascii_lowercase().as_str() {
            "color" => {
                if let Some(c) = hex(val) {
                    v.push(Decl { prop: Prop::Color(c), important });
                }
            }
            "background-color" => {
                if let Some(c) = hex(val) {
                    v.push(Decl { prop: Prop::BgColor(c), important });
                }
            }
            "display" => {
                if val == "none" {
                    v.push(Decl { prop: Prop::DisplayNone, important });
                }
            }
            "height" | "max-height" => {
                if is_zero_length(val) {
                    zero = Some(important);
                }
            }
            "overflow" | "overflow-y" => {
                if val == "hidden" {
                    hidden = Some(important);
                }
            }
            _ => {}
        }
    }
    if zero.is_some() && hidden.is_some() {
        v.push(Decl { prop: Prop::ZeroHeightHidden(false), important: false });
    }
    v
}

#[derive(Clone, Debug, Default, PartialEq, Eq)]
pub struct Computed {
    pub colour: Option<u32>,
    pub bg: Option<u32>,
    pub hidden: bool,
}

/// Computed style of element `n` under the reference semantics.
pub fn computed(dom: &Arena, n: usize, st: &Styling, use_doc_css: bool) -> Computed {
    let mut cands: Vec<Candidate> = vec![];
    let mut order = 0;
    for (origin, sheet) in [(Origin::Agent, &st.agent), (Origin::User, &st.user), (Origin::Author, &st.author)] {
        if origin == Origin::Author && !use_doc_css {
            continue;
        }
        for rule in sheet {
            for sel in &rule.selectors {
                if matches_complex(dom, n, sel) {
                    for d in &rule.decls {
                        cands.push(Candidate { origin, important: d.important, inline: false, specificity: sel.specificity(), order, prop: d.prop.clone() });
                        order += 1;
                    }
                } else {
                    order += rule.decls.len();
                }
            }
        }
    }
    if use_doc_css {
        if let Some(style) = dom.attr(n, "style") {
            for d in parse_inline(style) {
                cands.push(Candidate { origin: Origin::Author, important: d.important, inline: true, specificity: (0, 0, 0), order, prop: d.prop.clone() });
                order += 1;
            }
        }
    }
    let col = winner(cands.iter().filter(|c| matches!(c.prop, Prop::Color(_))));
    let bg = winner(cands.iter().filter(|c| matches!(c.prop, Prop::BgColor(_))));
    let hidden = cands.iter().any(|c| matches!(c.prop, Prop::DisplayNone | Prop::ZeroHeightHidden(_) | Prop::ZeroHeightMixed(_) | Prop::ZeroHeightUnit(_)));
    Computed {
        colour: col.and_then(|c| if let Prop::Color(x) = c.prop { Some(x) } else { None }),
        bg: bg.and_then(|c| if let Prop::BgColor(x) = c.prop { Some(x) } else { None }),
        hidden,
    }
}

// ---------------------------------------------------------------------------------------------
// strategies

pub const ELEMS: &[&str] = &["p", "div", "span", "em", "li", "ul", "ol", "a", "strong", "blockquote", "h2", "dd", "dt", "code", "b", "td", "tr"];
pub const CLASSES: &[&str] = &["a", "b", "c", "Hd"];

pub fn nth() -> BoxedStrategy<Nth> {
    prop_oneof![
        1 => Just(Nth::Odd),
        1 => Just(Nth::Even),
        4 => (-5i32..=5, -5i32..=5).prop_map(|(a, b)| Nth::AnB(a, b)),
        1 => (-5i32..=5).prop_map(Nth::An),
        2 => (-5i32..=5).prop_map(Nth::B),
    ]
    .boxed()
}

pub fn compound(ids: usize) -> BoxedStrategy<Compound> {
    let elem = prop_oneof![
        4 => Just(None),
        5 => prop::sample::select(ELEMS).prop_map(|e| Some(e.to_string())),
        1 => prop::sample::select(ELEMS).prop_map(|e| Some(e.to_uppercase())),
        2 => Just(Some("*".to_string())),
    ];
    let part = prop_oneof![
        5 => prop::sample::select(CLASSES).prop_map(|c| Part::Class(c.to_string())),
        1 => Just(Part::Class("hd".to_string())),
        3 => (0..ids.max(1)).prop_map(|i| Part::Id(format!("i{}", i))),
        3 => nth().prop_map(Part::Nth),
    ];
    (elem, prop::collection::vec(part, 0..3))
        .prop_map(|(elem, parts)| {
            let mut c = Compound { elem, parts };
            if c.elem.is_none() && c.parts.is_empty() {
                c.elem = Some("*".into());
            }
            c
        })
        .boxed()
}

pub fn complex(ids: usize) -> BoxedStrategy<Complex> {
    prop::collection::vec((prop_oneof![2 => Just(Comb::Desc), 1 => Just(Comb::Child)], compound(ids)), 1..=4).prop_map(|steps| Complex { steps }).boxed()
}

pub fn variant() -> BoxedStrategy<Variant> {
    (0u8..4, any::<bool>(), 0u8..3, prop_oneof![2 => Just(vec![]), 1 => prop::collection::vec(any::<u8>(), 1..4)], any::<bool>(), any::<u8>(), prop_oneof![3 => Just(0u8), 1 => Just(1u8), 1 => Just(2u8), 1 => Just(3u8), 1 => Just(4u8)], prop::bool::weighted(0.2))
        .prop_map(|(layout, upper, final_semi, junk, unknown_props, nth_style, place, split)| Variant { layout, upper, final_semi, junk, unknown_props, nth_style, place, split, repeat: false })
        .boxed()
}
