//! C17 — CSS never breaks rendering; insignificant CSS syntax does not matter.
use super::csscommon::*;
use crate::cfg::{parsed_style, render, render_lines, try_add_css, CfgSpec, Rend};
use crate::cssgen::{self, canonical_css, sheet_to_css, Decl, Prop, Rule, Sheet, Styling, Variant};
use super::fuzzsub::FuzzSub;
use crate::engine::{EnumSub, PropSub, Property, Stats};
use crate::gen::{self, Doc, G};
use crate::util::{is_visible, short};
use proptest::prelude::*;
use serde::{Deserialize, Serialize};
use serde_json::json;

// ---------------------------------------------------------------------------------------------
// (a) any string

#[derive(Clone, Debug, Serialize, Deserialize, PartialEq, Eq, Hash)]
pub struct SoupCase {
    pub css: String,
    pub doc: Doc,
    pub width: usize,
}

const TOKENS: &[&str] = &[
    "p", "div", ".a", "#i0", "*", ">", " ", "  ", "\n", ",", "{", "}", "(", ")", "[", "]", ";", ":", "::before", "::after", ":nth-child(", ":nth-child(2n+1)", ":hover", "color", "background",
    "background-color", "display", "none", "block", "white-space", "pre", "content", "height", "max-height", "overflow", "hidden", "0", "0px", "1e9", "99999999999999999999", "-2147483648", "2147483647n", "-n+3", "n-2147483647",
    "#", "#f00", "#ff0000", "#12", "#zz", "red", "rgb(", "rgb(1,2,3)", "rgb(300,1,1)", "url(", "url(x)", "\"", "'", "\"str\"", "'unterminated", "\\", "\\41 ", "\\d800 ", "\\dfff", "\\dc00x", "\\110000 ", "\\0 ", "\\ffffff", ".\\d800 x", "/*", "*/", "/* c */", "<!--", "-->", "@", "@media", "@import",
    "@x", "!important", "!", "important", "%", "12%", "+", "-", "--x", ".", "..", "e", "é", "中", "\u{0}", "\u{80}", "\u{81}", "\u{9f}", "\u{a0}", "\u{7f}", "\u{1f}", "\u{feff}", "\u{2028}", "\u{3000}", "\u{10ffff}", "\\00002da", "\\000031a", ".x\\00002da", "\t", "\r\n", "\x0c", "=", "~", "|", "^", "$", "&", "<", "a:not(.b)", "p+p", "1.5em", ".5", "5.", "+.5e-3",
];

fn soup() -> BoxedStrategy<String> {
    let from_tokens = prop::collection::vec(prop::sample::select(TOKENS), 0..40).prop_map(|v| v.concat());
    let bytes = prop::collection::vec(any::<u8>(), 0..80).prop_map(|b| String::from_utf8_lossy(&b).to_string());
    let ascii = "[ -~\\n]{0,80}";
    let truncated = (colour_sheet(3, 3, 0x10), cssgen::variant(), any::<u16>(), 0u8..30).prop_map(|(sheet, v, at, del)| {
        let css = sheet_to_css(&sheet, &v);
        let chars: Vec<char> = css.chars().collect();
        if chars.is_empty() {
            return css;
        }
        let p = (at as usize * (chars.len() + 1)) >> 16;
        let e = (p + del as usize).min(chars.len());
        let mut out: String = chars[..p].iter().collect();
        if del % 3 != 0 {
            out.extend(chars[e..].iter());
        }
        out
    });
    prop_oneof![5 => from_tokens, 1 => bytes, 1 => ascii.prop_map(|s| s), 3 => truncated].boxed()
}

fn mentions_layout_props(css: &str) -> bool {
    let l = css.to_ascii_lowercase();
    ["display", "content", "height", "white-space", "overflow"].iter().any(|k| l.contains(k))
}

pub fn check_soup(case: &SoupCase, st: &mut Stats) -> Result<(), String> {
    let css = &case.css;
    st.sample(|| json!({"css": short(css, 200)}));
    for agent in [false, true] {
        match try_add_css(css, agent) {
            Rend::Ok(()) | Rend::CssErr => {}
            other => return Err(format!("{}({:?}) => {:?} {}", if agent { "add_agent_css" } else { "add_css" }, short(css, 400), other.kind(), other.bad().unwrap_or_default())),
        }
    }
    // the same string inside the document
    let mut with = case.doc.clone();
    // keep the style element's raw text from closing itself
    let safe = css.replace("</", "<\\/");
    with.style = Some(safe.clone());
    let mut without = case.doc.clone();
    without.style = Some(String::new());
    let (h1, h0) = (with.to_html(), without.to_html());
    let w = case.width;
    let off = CfgSpec::plain();
    let mut on = CfgSpec::plain();
    on.doc_css = true;
    let base = render(&off, h0.as_bytes(), w);
    let r_off = render(&off, h1.as_bytes(), w);
    if let Some(b) = r_off.bad() {
        return Err(format!("{}\ncss={:?}", b, short(css, 400)));
    }
    if r_off != base {
        return Err(format!("a <style> element changes the output although use_doc_css is off\ncss={:?}\nhtml={}", short(css, 400), short(&h1, 600)));
    }
    let r_on = render(&on, h1.as_bytes(), w);
    if let Some(b) = r_on.bad() {
        return Err(format!("use_doc_css: {}\ncss={:?}\nhtml={}", b, short(css, 400), short(&h1, 600)));
    }
    if !mentions_layout_props(css) {
        // colours cannot change plain text; without display/content/height/white-space rules the
        // characters must be those of the unstyled document
        let vis = |r: &Rend<String>| r.as_ok().map(|s| s.chars().filter(|c| is_visible(*c)).collect::<String>());
        if r_on.kind() != base.kind() || vis(&r_on) != vis(&base) {
            return Err(format!(
                "CSS without display/content/height/white-space rules changes whether or what text is rendered\ncss={:?}\nhtml={}\n with={:?}\n without={:?}",
                short(css, 400),
                short(&h1, 600),
                r_on.as_ok().map(|s| short(s, 300)),
                base.as_ok().map(|s| short(s, 300))
            ));
        }
        // a later, separate <style> element is parsed on its own: whatever state the string leaves
        // the parser in (open block, comment, string, at-rule) must not swallow its rules
        let mut two = with.clone();
        two.style2 = Some("* { display: none }".to_string());
        let h2 = two.to_html();
        let r2 = render(&on, h2.as_bytes(), w);
        if let Some(b) = r2.bad() {
            return Err(format!("use_doc_css, two <style> elements: {}\ncss={:?}", b, short(css, 400)));
        }
        if let Some(t) = vis(&r2) {
            st.class("second_style_element_checked");
            if !t.is_empty() {
                return Err(format!(
                    "a second <style> element (`* {{ display: none }}`) after one holding this string does not take effect: text {:?} is still rendered\ncss={:?}\nhtml={}",
                    short(&t, 100), short(css, 400), short(&h2, 600)
                ));
            }
        }
    } else {
        st.class("mentions_display_content_height_ws");
    }
    if css.contains('{') || css.contains('@') {
        st.nontrivial(&case.css);
    }
    Ok(())
}

fn soup_case() -> BoxedStrategy<SoupCase> {
    let mut g = G::default().depth(1);
    g.max_blocks = 2;
    (soup(), gen::doc(&g), 5usize..=60).prop_map(|(css, doc, width)| SoupCase { css, doc, width }).boxed()
}

fn soup_regressions() -> Vec<SoupCase> {
    let d = Doc::of(vec![gen::Block::P(Default::default(), vec![gen::Inline::Text(gen::Txt::simple(3))])]);
    [
        "@x #;",
        "p:nth-child(99999999999){color:red}",
        "p:nth-child(n-2147483647){color:red}",
        "p:nth-child(-2147483648n+2147483647){color:red}",
        "p{color:red}",
        "p{color:red;;}",
        "a:hover{color:#0f0} p{color:red}",
        "# { } #",
        "p { color: rgb(300, 1, 1) }",
        "@media x { p { display: none } ",
        "p { content: \"\\",
        "/* unterminated",
        "\\",
        "p:nth-child(2n + 1) { color: red }",
        "div * { color: red }",
        ".\\d800 x {}",
        "p\\dfff{color:red}",
        "@media print { .x { margin: 0; } .b { color: #00f } }",
    ]
    .iter()
    .map(|c| SoupCase { css: c.to_string(), doc: d.clone(), width: 20 })
    .collect()
}

// ---------------------------------------------------------------------------------------------
// (c) equivalent spellings of a valid sheet

#[derive(Clone, Debug, Serialize, Deserialize, PartialEq, Eq, Hash)]
pub struct VariantCase {
    pub doc: Doc,
    pub sheet: Sheet,
    pub variant: Variant,
    pub width: usize,
    /// deliver through add_css instead of the document's <style>
    pub user: bool,
}

pub fn check_variant(case: &VariantCase, st: &mut Stats) -> Result<(), String> {
    let canon = canonical_css(&case.sheet);
    let var = sheet_to_css(&case.sheet, &case.variant);
    st.sample(|| json!({"canonical": short(&canon, 300), "variant": short(&var, 400)}));
    let build = |css: &str| -> (String, CfgSpec) {
        let mut d = case.doc.clone();
        d.doctype = true;
        let mut cfg = CfgSpec::rich();
        cfg.doc_css = true;
        if case.user {
            d.style = Some(String::new());
            cfg.user_css = vec![css.to_string()];
        } else {
            d.style = Some(css.to_string());
        }
        (d.to_html(), cfg)
    };
    let (h_a, c_a) = build(&canon);
    let (h_b, c_b) = build(&var);
    if !case.user {
        // what the library says it parsed
        let pa = parsed_style(h_a.as_bytes());
        let pb = parsed_style(h_b.as_bytes());
        if let Some(b) = pb.bad().or(pa.bad()) {
            return Err(format!("dom_to_parsed_style: {}\nvariant={:?}", b, short(&var, 600)));
        }
        if pa != pb {
            return Err(format!(
                "two spellings of the same sheet parse differently\n canonical={:?}\n variant  ={:?}\n parsed canonical={:?}\n parsed variant  ={:?}",
                short(&canon, 600),
                short(&var, 800),
                pa.as_ok().map(|s| short(s, 600)),
                pb.as_ok().map(|s| short(s, 600))
            ));
        }
    } else {
        for css in [&canon, &var] {
            match try_add_css(css, false) {
                Rend::Ok(()) => {}
                other => return Err(format!("add_css rejects a valid sheet: {:?}\ncss={:?}", other.kind(), short(css, 600))),
            }
        }
    }
    let ra = render_lines(&c_a, h_a.as_bytes(), case.width);
    let rb = render_lines(&c_b, h_b.as_bytes(), case.width);
    if let Some(b) = rb.bad().or(ra.bad()) {
        return Err(format!("{}\nvariant={:?}", b, short(&var, 600)));
    }
    if ra != rb {
        return Err(format!(
            "two spellings of the same sheet style the document differently (w={}, delivered as {})\n canonical={:?}\n variant  ={:?}\n html={}",
            case.width,
            if case.user { "user css" } else { "<style>" },
            short(&canon, 600),
            short(&var, 800),
            short(&h_a, 600)
        ));
    }
    // syntactic places that differ
    let mut places = 0;
    places += (case.variant.layout != 1) as usize;
    places += case.variant.upper as usize;
    places += (case.variant.final_semi != 0) as usize;
    places += (!case.variant.junk.is_empty()) as usize;
    places += case.variant.unknown_props as usize;
    if case.sheet.len() >= 2 && places >= 2 {
        st.nontrivial(case);
    }
    if !case.variant.junk.is_empty() {
        st.class("junk_rules_interleaved");
    }
    Ok(())
}

fn mixed_sheet(ids: usize) -> BoxedStrategy<Sheet> {
    (colour_sheet(5, ids, 0x500000), prop::collection::vec((cssgen::complex(ids), prop::bool::weighted(0.3)), 0..2))
        .prop_map(|(mut sheet, hides)| {
            for (sel, imp) in hides {
                sheet.push(Rule { selectors: vec![sel], decls: vec![Decl { prop: Prop::DisplayNone, important: imp }] });
            }
            sheet
        })
        .boxed()
}

fn variant_case() -> BoxedStrategy<VariantCase> {
    decorated_doc(css_doc_g())
        .prop_flat_map(|(doc, ids)| (Just(doc), mixed_sheet(ids.max(2)), cssgen::variant(), 1usize..=80, any::<bool>()))
        .prop_map(|(doc, sheet, variant, width, user)| VariantCase { doc, sheet, variant, width, user })
        .boxed()
}

pub fn property() -> Property {
    let _ = Styling::default;
    Property {
        id: "C17",
        level: "exploration",
        rule: "(a) strings from {token soup over ~110 CSS tokens incl. long digit runs, `#`, `@`, unbalanced brackets, unterminated strings/comments/escapes, CDO/CDC, non-ASCII, NUL; random bytes decoded lossily; printable ASCII; truncated / chunk-deleted serialisations of valid sheets}: add_css and add_agent_css return Ok or CssParseError (no panic, no hang: watchdog); the same string in a <style> element: with use_doc_css off the output equals that of the document without it; with use_doc_css on rendering does not fail and, unless the string mentions display/content/height/white-space/overflow, renders the same characters. (b) valid sheets (<= 7 rules: colour / background / display:none on selector lists from C20's grammar) and a variant spelling (minified | spaced | indented | comments wherever whitespace may go; upper-case property names and hex digits; final `;` present, dropped or doubled; unknown properties; junk between rules: unknown at-rules with blocks or `;`, rule sets with unsupported selectors, unknown properties): dom_to_parsed_style equal, add_css accepts both, rich tagged lines of a decorated probe document equal. Non-trivial: (a) the string contains `{` or `@`; (b) >= 2 rules and >= 2 syntactic places differ; distinct by the string / whole case.",
        assumptions: vec!["`</` inside generated CSS is written `<\\/` so that the style element does not end early", "top-level `<!--`/`-->` are not in the list of insignificant syntax and are not used as junk"],
        hang_is_violation: true,
        subs: vec![
            EnumSub::new("regressions", false, |_| soup_regressions(), check_soup).boxed(),
            PropSub::new("soup", 40_000, 400_000, soup_case, check_soup).with_validity(|c| c.doc.valid()).boxed(),
            PropSub::new("variants", 24_000, 240_000, variant_case, check_variant).with_validity(|c| c.doc.valid() && styling_valid(&Styling { agent: c.sheet.clone(), ..Default::default() })).boxed(),
            FuzzSub { name: "fuzz_css", target: "fuzz_css", props: &["C17", "C01"], seconds: 300 }.boxed(),
        ],
    }
}
