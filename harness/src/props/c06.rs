//! C06 — table cells stay in their columns, in order; columns with text get space.
use super::regtable::*;
use crate::cfg::{render, CfgSpec, Rend};
use crate::engine::{Ctx, EnumSub, PropSub, Property, Stats, Tier};
use crate::gen::label_of;
use crate::util::short;
use serde_json::json;

pub fn check_cells(case: &RegCase, st: &mut Stats) -> Result<(), String> {
    check_cells_inner(case, st, true)
}

pub fn check_cells_strict(case: &RegCase, st: &mut Stats) -> Result<(), String> {
    check_cells_inner(case, st, false)
}

fn check_cells_inner(case: &RegCase, st: &mut Stats, exclude_known: bool) -> Result<(), String> {
    let t = &case.table;
    if !t.is_regular() {
        return Err("harness: table is not regular".into());
    }
    if exclude_known && t.in_known_class() {
        st.exclude("KF-C05-ragged / KF-C03-starved-cell (span over a column without a non-empty span-1 cell)");
        return Ok(());
    }
    if t.has_blank_pre() {
        // a spaces-only <pre> renders nothing but has a size estimate: its column is drawn although it
        // holds no text, which the column-liveness model below does not describe (C05 checks these tables)
        st.class("skipped_blank_pre_cell");
        return Ok(());
    }
    let (html, nlabels) = t.doc().to_html_n();
    if nlabels > crate::gen::max_labels() {
        st.class("skipped_too_many_text_nodes");
        return Ok(());
    }
    let w = case.width;
    st.sample(|| json!({"html": short(&html, 300), "width": w, "options": case.opts.brief()}));
    if !case.opts.is_default() {
        st.class("with_layout_options(pad/max_wrap/min_wrap/rich)");
    }
    let r = render(&case.opts.cfg(), html.as_bytes(), w);
    if let Some(b) = r.bad() {
        return Err(format!("{}\nhtml={}", b, html));
    }
    let Rend::Ok(out) = r else {
        st.class("toonarrow");
        return Ok(());
    };
    let show = |m: String| format!("{} (w={}, options={})\nhtml={}\n{}", m, w, case.opts.brief(), short(&html, 1200), short(&out, 1500));
    // label -> (row, cell index in row), labels in serialisation (row-major) order
    let per = t.labels_per_cell();
    let mut owner: Vec<(usize, usize)> = vec![];
    for (r, row) in per.iter().enumerate() {
        for (c, n) in row.iter().enumerate() {
            for _ in 0..*n {
                owner.push((r, c));
            }
        }
    }
    let a = analyse(&out, w).map_err(&show)?;
    // where every cell's characters are
    let mut seen: std::collections::BTreeMap<(usize, usize), Vec<(usize, usize)>> = Default::default(); // cell -> (line, x)
    for (y, g) in a.grid.iter().enumerate() {
        for (x, ch) in g.iter().enumerate() {
            if let Some(l) = label_of(*ch) {
                let Some(o) = owner.get(l) else {
                    return Err(show(format!("character {:?} does not belong to any cell", ch)));
                };
                seen.entry(*o).or_default().push((y, x));
            }
        }
    }
    // every non-empty source cell shows up
    for (r, row) in per.iter().enumerate() {
        for (c, n) in row.iter().enumerate() {
            if *n > 0 && !seen.contains_key(&(r, c)) {
                return Err(show(format!("cell (row {}, cell {}) has text but nothing of it is in the output", r, c)));
            }
        }
    }
    let stacked = match a.kind {
        LayoutKind::Empty => {
            st.class("empty");
            return Ok(());
        }
        LayoutKind::Stacked => true,
        LayoutKind::SideBySide => {
            // ambiguous tiny-width case: a '/' separator line means stacked
            a.table_width == w && a.grid.iter().any(|g| !g.is_empty() && g.iter().all(|c| *c == '/'))
        }
    };
    if stacked {
        st.class("stacked");
        // a line belongs to one cell; cells appear top to bottom in source order, contiguously
        let mut order: Vec<(usize, usize)> = vec![];
        for y in 0..a.grid.len() {
            let mut here: Option<(usize, usize)> = None;
            for ch in &a.grid[y] {
                if let Some(l) = label_of(*ch) {
                    let o = owner[l];
                    match here {
                        None => here = Some(o),
                        Some(h) if h != o => return Err(show(format!("line {} of a stacked table mixes two cells {:?} and {:?}", y, h, o))),
                        _ => {}
                    }
                }
            }
            if let Some(h) = here {
                if order.last() != Some(&h) {
                    if order.contains(&h) {
                        return Err(show(format!("lines of cell {:?} are not contiguous in a stacked table", h)));
                    }
                    order.push(h);
                }
            }
        }
        if order.windows(2).any(|p| p[0] > p[1]) {
            return Err(show(format!("stacked cells out of source order: {:?}", order)));
        }
    } else {
        st.class(if t.has_nested() { "side_by_side_nested" } else { "side_by_side_flat" });
        // band -> source row: all characters of a band belong to one row; rows in order
        let mut band_row: Vec<Option<usize>> = vec![];
        for b in &a.bands {
            let mut row: Option<usize> = None;
            for (cell, pos) in &seen {
                for (y, _) in pos {
                    if *y >= b.0 && *y <= b.1 {
                        match row {
                            None => row = Some(cell.0),
                            Some(r) if r != cell.0 => return Err(show(format!("rows {} and {} share the band of lines {}..={}", r, cell.0, b.0, b.1))),
                            _ => {}
                        }
                    }
                }
            }
            band_row.push(row);
        }
        let rows_seq: Vec<usize> = band_row.iter().flatten().copied().collect();
        if rows_seq.windows(2).any(|p| p[0] > p[1]) {
            return Err(show(format!("rows out of order: {:?}", rows_seq)));
        }
        for (cell, pos) in &seen {
            for (y, _) in pos {
                if !a.bands.iter().any(|b| *y >= b.0 && *y <= b.1) {
                    return Err(show(format!("text of cell {:?} on rule line {}", cell, y)));
                }
            }
        }
        if !t.has_nested() {
            // exact column boundaries: union of the bars of all bands.  Columns are those of the
            // re-computed (remapped) geometry; a column without text in any row is not drawn.
            let geo = crate::tablegeo::geometry_of_ast(&t.to_ast());
            let live_flags = geo.anchored_columns();
            let live_index: Vec<Option<usize>> = {
                let mut k = 0;
                live_flags
                    .iter()
                    .map(|f| {
                        if *f {
                            k += 1;
                            Some(k - 1)
                        } else {
                            None
                        }
                    })
                    .collect()
            };
            let nlive = live_flags.iter().filter(|f| **f).count();
            let mut bounds: Vec<usize> = vec![];
            let mut bars_of_band = vec![];
            for b in &a.bands {
                let bars = band_bars(&a, *b);
                for x in &bars {
                    if !bounds.contains(x) {
                        bounds.push(*x);
                    }
                }
                bars_of_band.push(bars);
            }
            bounds.sort();
            // rows with content, in order, correspond to bands
            let content_rows: Vec<usize> = (0..t.rows.len()).filter(|r| t.rows[*r].iter().any(|c| !c.kind.renders_nothing())).collect();
            // a boundary (after live column l) is drawn iff some rendered row has a cell ending there
            let drawn_cells = |r: usize| -> Vec<(usize, usize, usize)> {
                let mut drawn = vec![];
                for (ci, (start, span)) in geo.rows[r].iter().enumerate() {
                    let lives: Vec<usize> = (*start..*start + *span).filter_map(|c| live_index.get(c).copied().flatten()).collect();
                    if let (Some(f), Some(l)) = (lives.first(), lives.last()) {
                        drawn.push((ci, *f, *l));
                    }
                }
                drawn
            };
            let mut exp_idx: std::collections::BTreeSet<usize> = Default::default();
            for r in &content_rows {
                let d = drawn_cells(*r);
                for (_, _, l) in d.iter().take(d.len().saturating_sub(1)) {
                    exp_idx.insert(*l);
                }
            }
            if bounds.len() != exp_idx.len() {
                return Err(show(format!("{} distinct column boundaries, but the rows' cells end at {} distinct boundaries between the {} columns holding text", bounds.len(), exp_idx.len(), nlive)));
            }
            // position of the boundary after live column l
            let pos_of: std::collections::BTreeMap<usize, usize> = exp_idx.iter().copied().zip(bounds.iter().copied()).collect();
            if content_rows.len() != a.bands.len() {
                return Err(show(format!("{} bands for {} rows with content", a.bands.len(), content_rows.len())));
            }
            for (bi, r) in content_rows.iter().enumerate() {
                if let Some(br) = band_row[bi] {
                    if br != *r {
                        return Err(show(format!("band {} shows row {} but should show row {}", bi, br, r)));
                    }
                }
                let drawn = drawn_cells(*r);
                let exp: Vec<usize> = drawn.iter().take(drawn.len().saturating_sub(1)).map(|(_, _, l)| pos_of[l]).collect();
                if exp != bars_of_band[bi] {
                    return Err(show(format!("row {}: bars at {:?} but the column boundaries of its cells are {:?} (boundaries {:?})", r, bars_of_band[bi], exp, bounds)));
                }
                for (k, (ci, f, l)) in drawn.iter().enumerate() {
                    let left = if k == 0 { None } else { pos_of.get(&(*f - 1)).copied() };
                    let right = if k + 1 == drawn.len() { None } else { pos_of.get(l).copied() };
                    if let Some(pos) = seen.get(&(*r, *ci)) {
                        for (y, x) in pos {
                            if left.map(|l| *x <= l).unwrap_or(false) || right.map(|rr| *x >= rr).unwrap_or(false) {
                                return Err(show(format!("text of cell (row {}, cell {}) at line {} column {} is outside its columns ({:?}..{:?})", r, ci, y, x, left, right)));
                            }
                        }
                    }
                }
            }
        } else {
            // nested content: separation of neighbouring cells by a bar common to the whole band
            for (bi, b) in a.bands.iter().enumerate() {
                let Some(r) = band_row[bi] else { continue };
                let bars = band_bars(&a, *b);
                let mut extents: Vec<(usize, usize, usize)> = vec![]; // (cell, min x, max x) within this band
                for (cell, pos) in &seen {
                    if cell.0 != r {
                        continue;
                    }
                    let xs: Vec<usize> = pos.iter().filter(|(y, _)| *y >= b.0 && *y <= b.1).map(|(_, x)| *x).collect();
                    if let (Some(mn), Some(mx)) = (xs.iter().min(), xs.iter().max()) {
                        extents.push((cell.1, *mn, *mx));
                    }
                }
                extents.sort();
                for p in extents.windows(2) {
                    let (ca, _, amax) = p[0];
                    let (cb, bmin, _) = p[1];
                    if !bars.iter().any(|x| *x > amax && *x < bmin) {
                        return Err(show(format!("row {}: no vertical bar common to the whole row separates cell {} from cell {}", r, ca, cb)));
                    }
                }
            }
        }
    }
    let rows_with_text = per.iter().filter(|r| r.iter().any(|n| *n > 0)).count();
    let cols_with_text = t.cols >= 2;
    if rows_with_text >= 2 && cols_with_text {
        st.nontrivial(case);
        st.nt_sample(|| json!({"html": short(&html, 300), "width": w, "out": short(&out, 400)}));
    }
    Ok(())
}

fn exhaustive_items(ctx: &Ctx) -> Vec<RegCase> {
    let (r, c, wmax) = if ctx.tier == Tier::Quick { (2, 3, 30) } else { (3, 3, 30) };
    let mut v = vec![];
    for t in exhaustive_tables(r, c) {
        for w in 1..=wmax {
            v.push(RegCase { table: t.clone(), width: w, opts: Default::default() });
        }
    }
    v
}

fn regressions(_ctx: &Ctx) -> Vec<RegCase> {
    let s = |span| RCell { span, kind: CellKind::Short, th: false };
    let l = |span| RCell { span, kind: CellKind::Long(vec![3, 3, 3]), th: false };
    vec![
        RegCase { table: RTable { cols: 3, rows: vec![vec![s(1), s(1), s(1)], vec![l(2), s(1)], vec![s(1), l(2)]], head: 0 }, width: 12, opts: Default::default() },
        RegCase { table: RTable { cols: 2, rows: vec![vec![l(1), s(1)], vec![l(2)]], head: 1 }, width: 3, opts: Default::default() },
    ]
}

pub fn property() -> Property {
    Property {
        id: "C06",
        level: "exploration",
        rule: "regular tables as in C05 (random 1..5 x 1..6 with nested tables; bounded-exhaustive 2x3 quick / 3x3 thorough over {empty, short, long} x all tilings x widths 1..=30), one identifying character per text node, width 1..=100, plain decorator; oracle: characters are mapped back to their source cell; every non-empty cell appears; side-by-side flat tables: exactly cols-1 distinct bar positions, each row's bars are the boundaries at the ends of its cells, every character lies strictly between the bars of the columns its cell spans, bands show rows in order; nested tables: neighbouring cells of a row are separated by a bar common to the whole band, rows in order; stacked: a line never mixes two cells, cells contiguous and in source order. Non-trivial = >= 2 rows with text and >= 2 columns; distinct by (table, width).",
        assumptions: vec!["shapes in the known-finding class (a span over a column without a non-empty span-1 cell) are excluded and counted"],
        hang_is_violation: false,
        subs: vec![
            EnumSub::new("strict_regressions", false, regressions, check_cells_strict).boxed(),
            EnumSub::new("exhaustive", true, exhaustive_items, check_cells).boxed(),
            PropSub::new("random", 40_000, 400_000, reg_case, check_cells).with_validity(|c| c.table.is_regular()).boxed(),
        ],
    }
}
