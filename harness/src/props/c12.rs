//! C12 — preformatted text keeps its lines and spacing.
use super::common::cfg_brief;
use crate::cfg::{render, render_lines, Ann, CfgSpec, Deco, OElem, Rend};
use crate::engine::{EnumSub, PropSub, Property, Stats};
use crate::gen::{label_of, narrow_pool, wide_pool};
use crate::util::{cw, is_visible, line_width, short};
use proptest::prelude::*;
use serde::{Deserialize, Serialize};
use serde_json::json;

#[derive(Clone, Debug, Serialize, Deserialize, PartialEq, Eq, Hash)]
pub enum PTok {
    /// a word of `len` letters; `wide` uses width-2 letters; `tag` wraps it in an inline element
    Word { len: u8, wide: bool, tag: u8 },
    Spaces(u8),
    Tab,
}

#[derive(Clone, Debug, Serialize, Deserialize, PartialEq, Eq, Hash)]
pub enum Nest {
    None,
    Li,
    Quote,
    Dd,
}

#[derive(Clone, Debug, Serialize, Deserialize, PartialEq, Eq, Hash)]
pub struct PreCase {
    pub lines: Vec<Vec<PTok>>,
    /// use `<br>` instead of a newline between two non-empty lines
    pub br: Vec<bool>,
    /// emit the optional newline right after `<pre>`
    pub lead_nl: bool,
    pub width: usize,
    pub nest: Nest,
    pub deco: u8,
    /// `max_wrap_width(m)`: the available width is min(m, width - prefix)
    #[serde(default)]
    pub max_wrap: Option<usize>,
}

const ITAGS: &[&str] = &["", "", "", "em", "strong", "span", "code", "b"];

fn line_is_empty(l: &[PTok]) -> bool {
    l.is_empty()
}

/// (html, source lines as plain text)
pub fn build(case: &PreCase) -> (String, Vec<String>) {
    let mut html = String::from("<pre>");
    let first_empty = case.lines.first().map(|l| line_is_empty(l)).unwrap_or(true);
    if case.lead_nl || first_empty {
        html.push('\n');
    }
    let mut src = vec![];
    for (i, line) in case.lines.iter().enumerate() {
        if i > 0 {
            let both = !line_is_empty(line) && !line_is_empty(&case.lines[i - 1]);
            if both && case.br.get(i % case.br.len().max(1)).copied().unwrap_or(false) {
                html.push_str("<br>");
            } else {
                html.push('\n');
            }
        }
        let mut s = String::new();
        for t in line {
            match t {
                PTok::Word { len, wide, tag } => {
                    let ch = if *wide { wide_pool()[i % wide_pool().len()] } else { narrow_pool()[i % narrow_pool().len()] };
                    let w: String = std::iter::repeat(ch).take((*len).max(1) as usize).collect();
                    let tg = ITAGS[*tag as usize % ITAGS.len()];
                    if tg.is_empty() {
                        html.push_str(&w);
                    } else {
                        html.push_str(&format!("<{}>{}</{}>", tg, w, tg));
                    }
                    s.push_str(&w);
                }
                PTok::Spaces(n) => {
                    for _ in 0..(*n).max(1) {
                        html.push(' ');
                        s.push(' ');
                    }
                }
                PTok::Tab => {
                    html.push('\t');
                    s.push('\t');
                }
            }
        }
        src.push(s);
    }
    html.push_str("</pre>");
    let html = match case.nest {
        Nest::None => html,
        Nest::Li => format!("<ul><li>{}</li></ul>", html),
        Nest::Quote => format!("<blockquote>{}</blockquote>", html),
        Nest::Dd => format!("<dl><dd>{}</dd></dl>", html),
    };
    (html, src)
}

pub fn expand_tabs(l: &str) -> String {
    let mut out = String::new();
    let mut col = 0usize;
    for c in l.chars() {
        if c == '\t' {
            let n = 8 - (col % 8);
            for _ in 0..n {
                out.push(' ');
            }
            col += n;
        } else {
            out.push(c);
            col += cw(c);
        }
    }
    out
}

fn cfg_of(d: u8) -> CfgSpec {
    match d % 4 {
        0 => CfgSpec::rich(),
        1 => CfgSpec::plain_nd(),
        2 => CfgSpec::trivial(),
        _ => CfgSpec::rich(),
    }
}

pub fn check_pre(case: &PreCase, st: &mut Stats) -> Result<(), String> {
    check_pre_inner(case, st, false)
}

/// As `check_pre`, but the continuation-tag law is asserted for every overflowing line
/// (used for regressions and for replaying the known finding).
pub fn check_pre_strict(case: &PreCase, st: &mut Stats) -> Result<(), String> {
    check_pre_inner(case, st, true)
}

fn check_pre_inner(case: &PreCase, st: &mut Stats, strict: bool) -> Result<(), String> {
    if case.lines.is_empty() || case.lines.len() > 12 {
        return Err("harness: 1..=12 lines".into());
    }
    let mut cfg = cfg_of(case.deco);
    cfg.max_wrap = case.max_wrap;
    let (html, src) = build(case);
    let w = case.width;
    let trivial = cfg.deco == Deco::Trivial;
    let (p1, pn): (&str, &str) = match case.nest {
        Nest::None => ("", ""),
        Nest::Li => if trivial { ("", "") } else { ("* ", "  ") },
        Nest::Quote => if trivial { ("", "") } else { ("> ", "> ") },
        Nest::Dd => ("  ", "  "),
    };
    let mut avail = w.saturating_sub(p1.len());
    if let Some(m) = case.max_wrap {
        avail = avail.min(m);
        st.class("max_wrap_width");
    }
    st.sample(|| json!({"html": short(&html, 300), "width": w, "cfg": cfg_brief(&cfg)}));
    let r = render_lines(&cfg, html.as_bytes(), w);
    if let Some(b) = r.bad() {
        return Err(format!("{}\nhtml={:?}", b, html));
    }
    let has_wide = case.lines.iter().flatten().any(|t| matches!(t, PTok::Word { wide: true, .. }));
    let lines = match r {
        Rend::Ok(l) => l,
        _ => {
            if case.nest == Nest::None && !(has_wide && avail < 2) {
                return Err(format!("TooNarrow for a top-level <pre> without a character wider than the width (w={})\nhtml={:?}", w, html));
            }
            st.class("toonarrow");
            return Ok(());
        }
    };
    // the string route must agree (C10 covers this in general; cheap to keep here)
    let out: Vec<String> = lines.iter().map(|l| crate::cfg::oline_text(l)).collect();
    if let Rend::Ok(s) = render(&cfg, html.as_bytes(), w) {
        if s.lines().map(|x| x.to_string()).collect::<Vec<_>>() != out {
            return Err("string route and lines route differ".into());
        }
    }
    let expanded: Vec<String> = src.iter().map(|l| expand_tabs(l)).collect();
    let fits = expanded.iter().all(|l| line_width(l) <= avail);
    let interesting_ws = src.iter().any(|l| {
        let t = l.trim_end();
        t.contains('\t') || t.contains("  ")
    });
    // strip prefixes
    let mut body: Vec<String> = vec![];
    for (i, l) in out.iter().enumerate() {
        let p = if i == 0 { p1 } else { pn };
        if let Some(rest) = l.strip_prefix(p) {
            body.push(rest.to_string());
        } else if l.trim_end() == p.trim_end() {
            body.push(String::new());
        } else {
            return Err(format!("output line {} lacks the block prefix {:?}: {:?}\nhtml={:?}", i, p, l, html));
        }
    }
    for l in &body {
        if line_width(l) > avail && !cfg.overflow {
            return Err(format!("piece wider than the available width {}: {:?}\nhtml={:?}", avail, l, html));
        }
    }
    if fits {
        st.class("regime1_fits");
        let mut exp: Vec<String> = expanded.iter().map(|l| l.trim_end().to_string()).collect();
        while exp.last().map(|l| l.is_empty()).unwrap_or(false) {
            exp.pop();
        }
        let mut got: Vec<String> = body.iter().map(|l| l.trim_end().to_string()).collect();
        while got.last().map(|l| l.is_empty()).unwrap_or(false) {
            got.pop();
        }
        if exp != got {
            return Err(format!("preformatted block not reproduced line for line (w={}, avail={})\n html={:?}\n got={:?}\n exp={:?}", w, avail, html, got, exp));
        }
        if interesting_ws {
            st.nontrivial(case);
            st.nt_sample(|| json!({"html": short(&html, 300), "width": w, "out": out}));
        }
    } else {
        st.class("regime2_overflow");
        st.nontrivial(case);
        st.nt_sample(|| json!({"html": short(&html, 300), "width": w, "out": out}));
    }
    // character conservation per source line (both regimes): letters identify the source line
    let mut per_line: Vec<String> = vec![String::new(); src.len()];
    let mut order: Vec<usize> = vec![];
    for l in &body {
        let mut owner: Option<usize> = None;
        for c in l.chars().filter(|c| is_visible(*c)) {
            let Some(k) = label_of(c) else {
                return Err(format!("invented character {:?} in preformatted output line {:?}\nhtml={:?}", c, l, html));
            };
            if k >= src.len() {
                return Err(format!("character {:?} does not belong to any source line: {:?}", c, l));
            }
            match owner {
                None => owner = Some(k),
                Some(o) if o != k => return Err(format!("two source lines share an output line: {:?}\nhtml={:?}", l, html)),
                _ => {}
            }
            per_line[k].push(c);
        }
        if let Some(o) = owner {
            if order.last() != Some(&o) {
                if order.contains(&o) {
                    return Err(format!("pieces of source line {} are not contiguous\nhtml={:?}\nout={:?}", o, html, out));
                }
                order.push(o);
            }
        }
    }
    if order.windows(2).any(|p| p[0] > p[1]) {
        return Err(format!("source lines out of order: {:?}\nhtml={:?}\nout={:?}", order, html, out));
    }
    for (i, s) in src.iter().enumerate() {
        let want: String = s.chars().filter(|c| is_visible(*c)).collect();
        if want != per_line[i] {
            return Err(format!("characters of source line {} lost/duplicated/reordered: want {:?} got {:?}\nhtml={:?}\nout={:?}", i, want, per_line[i], html, out));
        }
    }
    // Preformat tags (rich only)
    if cfg.deco == Deco::Rich {
        // collect, per source line, the output lines that carry its letters, with the tags of the letter pieces
        let mut groups: Vec<Vec<Vec<bool>>> = vec![vec![]; src.len()];
        for l in &lines {
            let mut owner = None;
            let mut flags = vec![];
            for e in l {
                if let OElem::Str(s, tags) = e {
                    if let Some(c) = s.chars().find(|c| is_visible(*c) && label_of(*c).is_some()) {
                        owner = label_of(c);
                        let pf: Vec<bool> = tags.iter().filter_map(|t| if let Ann::Preformat(b) = t { Some(*b) } else { None }).collect();
                        if pf.len() != 1 {
                            return Err(format!("text inside <pre> carries {} Preformat annotations (expected 1): {:?}\nhtml={:?}", pf.len(), tags, html));
                        }
                        flags.push(pf[0]);
                    }
                }
            }
            if let Some(o) = owner {
                groups[o].push(flags);
            }
        }
        for (i, g) in groups.iter().enumerate() {
            if g.is_empty() {
                continue;
            }
            let line_fits = line_width(&expanded[i]) <= avail;
            let has_ws_inside = !strict && expanded[i].trim_end().contains(' ');
            if (line_fits || !has_ws_inside) && g[0].first() != Some(&false) {
                return Err(format!("first piece of source line {} is not tagged Preformat(false): {:?}\nhtml={:?}\nlines={:?}", i, g, html, lines));
            }
            if line_fits {
                if g.len() != 1 || g[0].iter().any(|b| *b) {
                    return Err(format!("source line {} fits but is split or tagged as continuation: {:?}\nhtml={:?}", i, g, html));
                }
            } else if !has_ws_inside {
                st.class("overflow_single_word_line(tags strict)");
                // a single over-long word: first piece false, continuation pieces true
                if g[0].iter().any(|b| *b) || g[1..].iter().any(|p| p.iter().any(|b| !*b)) {
                    return Err(format!("continuation tags wrong for over-long source line {}: {:?}\nhtml={:?}\nlines={:?}", i, g, html, lines));
                }
            } else {
                st.exclude("KF-C12-cont-tags(overflowing line containing whitespace: continuation tags not asserted)");
            }
        }
    }
    Ok(())
}

fn strict_regressions() -> Vec<PreCase> {
    let word = |len| PTok::Word { len, wide: false, tag: 0 };
    let mk = |lines: Vec<Vec<PTok>>, width| PreCase { lines, br: vec![false], lead_nl: false, width, nest: Nest::None, deco: 0, max_wrap: None };
    vec![
        mk(vec![vec![word(15)]], 10),
        mk(vec![vec![word(25)], vec![word(3)], vec![word(12)]], 10),
        mk(vec![vec![PTok::Word { len: 9, wide: true, tag: 0 }]], 7),
        mk(vec![vec![word(2), PTok::Spaces(3), word(2)]], 10),
    ]
}

pub fn pre_case() -> BoxedStrategy<PreCase> {
    let tok = prop_oneof![
        6 => (1u8..=8, prop::bool::weighted(0.1), any::<u8>()).prop_map(|(len, wide, tag)| PTok::Word { len, wide, tag }),
        1 => (9u8..=40, prop::bool::weighted(0.1), any::<u8>()).prop_map(|(len, wide, tag)| PTok::Word { len, wide, tag }),
        4 => (1u8..=5).prop_map(PTok::Spaces),
        1 => Just(PTok::Tab),
    ];
    // adjacent words would merge; keep the model simple by separating words with at least a space
    let line = prop::collection::vec(tok, 0..7).prop_map(|v| {
        let mut out: Vec<PTok> = vec![];
        for t in v {
            // two adjacent words stay glued (one long word crossing an inline-element boundary) when
            // the second one is wrapped in an element; otherwise they are separated by a space
            let wrapped = matches!(t, PTok::Word { tag, .. } if !ITAGS[tag as usize % ITAGS.len()].is_empty());
            if matches!(t, PTok::Word { .. }) && matches!(out.last(), Some(PTok::Word { .. })) && !wrapped {
                out.push(PTok::Spaces(1));
            }
            out.push(t);
        }
        out
    });
    (
        prop::collection::vec(line, 1..=8),
        prop::collection::vec(prop::bool::weighted(0.2), 1..4),
        any::<bool>(),
        1usize..=60,
        prop_oneof![4 => Just(Nest::None), 1 => Just(Nest::Li), 1 => Just(Nest::Quote), 1 => Just(Nest::Dd)],
        any::<u8>(),
        prop::option::weighted(0.2, 1usize..=40),
    )
        .prop_map(|(lines, br, lead_nl, width, nest, deco, max_wrap)| PreCase { lines, br, lead_nl, width, nest, deco, max_wrap })
        .boxed()
}

pub fn property() -> Property {
    Property {
        id: "C12",
        level: "exploration",
        rule: "pre blocks of 1..8 lines over {words of 1..40 letters (one identifying letter per source line, 10% wide), runs of 1..5 spaces, tabs, leading/trailing spaces, empty lines}, words optionally wrapped in inline elements, <br> instead of newline between non-empty lines, optional HTML-mandated leading newline, optionally inside li / blockquote / dd; width 1..=60; rich, plain_no_decorate, trivial. Oracle (reference model): tabs expanded to 8-column stops; if every expanded line fits the available width the output equals the expanded lines modulo trailing whitespace (trailing empty lines ignored); always: every piece <= available width, letters of each source line conserved in order, contiguous, never sharing an output line; rich: exactly one Preformat tag per text piece, first piece false, fitting lines unsplit and all false, over-long single-word lines false then true. Non-trivial = regime 2 (some line overflows) or a tab / interior run of >= 2 spaces; distinct by the whole case.",
        assumptions: vec!["only line-trailing whitespace may differ (spaces produced by a line-final tab are not content)", "words are separated by at least one space in the generator"],
        hang_is_violation: false,
        subs: vec![
            EnumSub::new("tags_strict", false, |_| strict_regressions(), check_pre_strict).boxed(),
            PropSub::new("model", 60_000, 600_000, pre_case, check_pre).with_validity(|c| c.width >= 1 && !c.lines.is_empty() && c.max_wrap != Some(0)).boxed(),
        ],
    }
}
