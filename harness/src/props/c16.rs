//! C16 — custom decorators are honoured verbatim and measured by display width.
use super::c07::{Wrap, WrapCase};
use super::common::*;
use crate::cfg::{render, CfgSpec, Deco, DecoStrings, Rend};
use crate::engine::{PropSub, Property, Stats};
use crate::gen::{self, blocks_to_html, Block, Doc, ITag, Inline, Ser, Txt, G};
use crate::util::{line_width, short};
use proptest::prelude::*;
use serde::{Deserialize, Serialize};
use serde_json::json;

fn dw(s: &str) -> usize {
    s.chars().map(crate::util::cw).sum()
}

pub fn deco_strings() -> BoxedStrategy<DecoStrings> {
    let affix = || {
        prop_oneof![
            3 => Just("".to_string()),
            2 => prop_oneof![Just("*"), Just("_"), Just("<<"), Just("'")].prop_map(|s| s.to_string()),
            2 => prop_oneof![Just("§"), Just("•"), Just("«"), Just("»")].prop_map(|s| s.to_string()),
            2 => prop_oneof![Just("〖"), Just("〗"), Just("）"), Just("＊")].prop_map(|s| s.to_string()),
            1 => prop_oneof![Just("_§"), Just("〖*"), Just("•）")].prop_map(|s| s.to_string()),
        ]
    };
    let prefix = || {
        prop_oneof![
            1 => Just("".to_string()),
            3 => prop_oneof![Just("> "), Just(">> "), Just("-"), Just("=> ")].prop_map(|s| s.to_string()),
            3 => prop_oneof![Just("§ "), Just("• "), Just("│ "), Just("•"), Just("§§ ")].prop_map(|s| s.to_string()),
            3 => prop_oneof![Just("） "), Just("〖"), Just("＞ "), Just("〖〗 ")].prop_map(|s| s.to_string()),
            1 => prop_oneof![Just("-• "), Just("）> "), Just("é "), Just("a\u{301} ")].prop_map(|s| s.to_string()),
        ]
    };
    let hdr_unit = prop_oneof![3 => Just("#"), 1 => Just("="), 2 => Just("§"), 2 => Just("〖"), 1 => Just("•")].prop_map(|s| s.to_string());
    let hdr_tail = prop_oneof![3 => Just(" "), 1 => Just(""), 1 => Just("） "), 1 => Just("§ ")].prop_map(|s| s.to_string());
    let ol_tail = (prop_oneof![3 => Just(". "), 1 => Just(") "), 2 => Just("） "), 2 => Just("§ "), 1 => Just("•")], prop_oneof![5 => Just(0u8), 2 => Just(1u8), 1 => Just(2u8), 1 => Just(3u8), 1 => Just(4u8)]).prop_map(|(s, k)| (s.to_string(), k));
    (
        (affix(), affix()),
        (affix(), affix()),
        (affix(), affix()),
        (affix(), affix()),
        (affix(), affix()),
        (affix(), affix()),
        (affix(), affix()),
        (hdr_unit, hdr_tail, prefix(), prefix(), ol_tail),
    )
        .prop_map(|(link, em, strong, strike, code, img, sup, (hdr_unit, hdr_tail, quote, ul, (ol_tail, ol_style)))| DecoStrings {
            link,
            em,
            strong,
            strike,
            code,
            img,
            sup,
            hdr_unit,
            hdr_tail,
            quote,
            ul,
            ol_tail,
            ol_style,
        })
        .boxed()
}

// ---------------------------------------------------------------------------------------------
// (1) totality and the width bound under any decorator strings

#[derive(Clone, Debug, Serialize, Deserialize, PartialEq, Eq, Hash)]
pub struct DecoDocCase {
    pub doc: Doc,
    pub width: usize,
    pub strings: DecoStrings,
}

pub fn check_total(case: &DecoDocCase, st: &mut Stats) -> Result<(), String> {
    let html = case.doc.to_html();
    let cfg = CfgSpec::of(Deco::Custom(case.strings.clone()));
    let w = case.width;
    st.sample(|| json!({"html": short(&html, 300), "width": w, "strings": case.strings}));
    let r = render(&cfg, html.as_bytes(), w);
    if let Some(b) = r.bad() {
        return Err(format!("{} (w={})\nstrings={:?}\nhtml={}", b, w, case.strings, short(&html, 900)));
    }
    if let Rend::Ok(s) = &r {
        for l in s.lines() {
            if line_width(l) > w {
                return Err(format!("line wider than the width under a custom decorator: {} > {}: {:?}\nstrings={:?}\nhtml={}", line_width(l), w, l, case.strings, short(&html, 900)));
            }
        }
    }
    st.class(r.kind());
    if !case.strings.is_ascii() {
        st.nontrivial(case);
    }
    Ok(())
}

// ---------------------------------------------------------------------------------------------
// (2) compositionality with the prefix measured by display width

#[derive(Clone, Debug, Serialize, Deserialize, PartialEq, Eq, Hash)]
pub struct DecoWrapCase {
    pub inner: WrapCase,
    pub strings: DecoStrings,
}

pub fn check_compose(case: &DecoWrapCase, st: &mut Stats) -> Result<(), String> {
    let ds = &case.strings;
    let c = &case.inner;
    if c.items.is_empty() {
        return Err("harness: no items".into());
    }
    let cfg = CfgSpec::of(Deco::Custom(ds.clone()));
    let w = c.width;
    let n = c.items.len();
    let item_html = |i: &Vec<Block>| blocks_to_html(i);
    let (outer, prefixes): (String, Vec<(String, String)>) = match &c.wrap {
        Wrap::Ul => (
            format!("<ul>{}</ul>", c.items.iter().map(|i| format!("<li>{}</li>", item_html(i))).collect::<String>()),
            vec![(ds.ul.clone(), " ".repeat(dw(&ds.ul))); n],
        ),
        Wrap::Ol(start) => {
            let s = start.unwrap_or(1);
            let nums: Vec<i64> = (0..n as i64).map(|k| s + k).collect();
            // all markers of a list are padded to the widest one
            let width = nums.iter().map(|k| dw(&ds.ol_marker(*k))).max().unwrap();
            (
                format!(
                    "<ol{}>{}</ol>",
                    start.map(|s| format!(" start=\"{}\"", s)).unwrap_or_default(),
                    c.items.iter().map(|i| format!("<li>{}</li>", item_html(i))).collect::<String>()
                ),
                nums.iter()
                    .map(|k| {
                        let p = ds.ol_marker(*k);
                        let pad = width - dw(&p);
                        (format!("{}{}", p, " ".repeat(pad)), " ".repeat(width))
                    })
                    .collect(),
            )
        }
        Wrap::Quote => (format!("<blockquote>{}</blockquote>", item_html(&c.items[0])), vec![(ds.quote.clone(), ds.quote.clone())]),
        Wrap::Dd => (
            format!("<dl>{}</dl>", c.items.iter().map(|i| format!("<dd>{}</dd>", item_html(i))).collect::<String>()),
            vec![("  ".to_string(), "  ".to_string()); n],
        ),
        Wrap::H(l) => {
            let p = format!("{}{}", ds.hdr_unit.repeat(*l as usize), ds.hdr_tail);
            (format!("<h{}>{}</h{}>", l, item_html(&c.items[0]), l), vec![(p.clone(), p)])
        }
    };
    let items: &[Vec<Block>] = match c.wrap {
        Wrap::Quote | Wrap::H(_) => &c.items[..1],
        _ => &c.items[..],
    };
    st.sample(|| json!({"html": short(&outer, 300), "width": w, "strings": ds}));
    let ro = render(&cfg, outer.as_bytes(), w);
    if let Some(b) = ro.bad() {
        return Err(format!("{} (w={})\nstrings={:?}\nhtml={}", b, w, ds, short(&outer, 800)));
    }
    let Some(got) = ro.as_ok().map(|s| s.lines().map(|l| l.to_string()).collect::<Vec<_>>()) else {
        st.class("outer_toonarrow");
        return Ok(());
    };
    let pw = dw(&prefixes[0].0);
    if w <= pw {
        st.class("no_room_beside_prefix");
        return Ok(());
    }
    let mut exp: Vec<String> = vec![];
    for (item, (p1, pn)) in items.iter().zip(prefixes.iter()) {
        let inner = item_html(item);
        let ri = render(&cfg, inner.as_bytes(), w - pw);
        if let Some(b) = ri.bad() {
            return Err(format!("{}\nhtml={}", b, short(&inner, 800)));
        }
        let Some(il) = ri.as_ok().map(|s| s.lines().map(|l| l.to_string()).collect::<Vec<_>>()) else {
            return Err(format!(
                "the wrapped document renders at width {} but its content alone is TooNarrow at width {} (prefix display width {})\n strings={:?}\n outer={}",
                w,
                w - pw,
                pw,
                ds,
                short(&outer, 600)
            ));
        };
        for (k, l) in il.iter().enumerate() {
            exp.push(format!("{}{}", if k == 0 { p1 } else { pn }, l));
        }
    }
    if got != exp {
        let first = got.iter().zip(exp.iter()).position(|(a, b)| a != b).unwrap_or(got.len().min(exp.len()));
        return Err(format!(
            "under a custom decorator the block is not `prefix + content rendered at width - display_width(prefix) = {}` (w={}); first difference at line {}\n strings={:?}\n html={}\n got={:?}\n exp={:?}",
            w - pw,
            w,
            first,
            ds,
            short(&outer, 900),
            got.iter().skip(first.saturating_sub(1)).take(4).collect::<Vec<_>>(),
            exp.iter().skip(first.saturating_sub(1)).take(4).collect::<Vec<_>>()
        ));
    }
    let used: &str = match c.wrap {
        Wrap::Ul => &ds.ul,
        Wrap::Ol(_) => &ds.ol_tail,
        Wrap::Quote => &ds.quote,
        Wrap::Dd => "",
        Wrap::H(_) => &ds.hdr_unit,
    };
    if !used.is_ascii() || (matches!(c.wrap, Wrap::H(_)) && !ds.hdr_tail.is_ascii()) {
        st.class("non_ascii_prefix_used");
        st.nontrivial(case);
    }
    Ok(())
}

// ---------------------------------------------------------------------------------------------
// (3) affixes surround exactly the element's text

#[derive(Clone, Debug, Serialize, Deserialize, PartialEq, Eq, Hash)]
pub struct AffixCase {
    pub inlines: Vec<Inline>,
    pub width: usize,
    pub strings: DecoStrings,
}

/// Append `s` as it appears inside `depth` nested strikeout elements: every non-whitespace
/// character with width gets one U+0336 per enclosing <s>/<del> (Unicode strikeout is on by default).
fn emit(s: &str, depth: usize, out: &mut String) {
    for c in s.chars() {
        out.push(c);
        if !c.is_whitespace() && crate::util::cw(c) > 0 {
            for _ in 0..depth {
                out.push('\u{336}');
            }
        }
    }
}

fn expected_stream(v: &[Inline], ds: &DecoStrings, label: &mut usize, depth: usize, out: &mut String) {
    for i in v {
        match i {
            Inline::Text(t) => {
                emit(&t.render(*label), depth, out);
                *label += 1;
            }
            Inline::El(tag, _, kids) => {
                let (a, b): (&str, &str) = match tag {
                    ITag::Em | ITag::I | ITag::Ins => (&ds.em.0, &ds.em.1),
                    ITag::Strong => (&ds.strong.0, &ds.strong.1),
                    ITag::S | ITag::Del => (&ds.strike.0, &ds.strike.1),
                    ITag::Code => (&ds.code.0, &ds.code.1),
                    ITag::Sup => (&ds.sup.0, &ds.sup.1),
                    _ => ("", ""),
                };
                // an element's own affixes are outside its own strikeout
                emit(a, depth, out);
                let inner = if matches!(tag, ITag::S | ITag::Del) { depth + 1 } else { depth };
                expected_stream(kids, ds, label, inner, out);
                emit(b, depth, out);
            }
            Inline::A { href, kids, .. } => {
                let linked = href.is_some();
                if linked {
                    emit(&ds.link.0, depth, out);
                }
                expected_stream(kids, ds, label, depth, out);
                if linked {
                    emit(&ds.link.1, depth, out);
                }
            }
            Inline::Img { alt, .. } => {
                if let Some(t) = alt {
                    emit(&ds.img.0, depth, out);
                    emit(&t.render(*label), depth, out);
                    *label += 1;
                    emit(&ds.img.1, depth, out);
                }
            }
            Inline::Br | Inline::Raw(_) => {}
        }
    }
}

pub fn check_affix(case: &AffixCase, st: &mut Stats) -> Result<(), String> {
    let mut ser = Ser::new();
    ser.out.push_str("<p>");
    ser.inlines(&case.inlines);
    ser.out.push_str("</p>");
    let html = ser.out;
    let cfg = CfgSpec::of(Deco::Custom(case.strings.clone()));
    let mut exp = String::new();
    let mut label = 0;
    expected_stream(&case.inlines, &case.strings, &mut label, 0, &mut exp);
    st.sample(|| json!({"html": short(&html, 300), "width": case.width, "strings": case.strings}));
    let r = render(&cfg, html.as_bytes(), case.width);
    if let Some(b) = r.bad() {
        return Err(format!("{}\nstrings={:?}\nhtml={}", b, case.strings, short(&html, 800)));
    }
    let Rend::Ok(out) = r else {
        st.class("toonarrow");
        return Ok(());
    };
    let squash = |s: &str| -> String { s.chars().filter(|c| !c.is_whitespace()).collect() };
    if squash(&out) != squash(&exp) {
        return Err(format!(
            "decorator affixes are not reproduced verbatim around the element text (w={})\n strings={:?}\n html={}\n got={:?}\n exp={:?}",
            case.width,
            case.strings,
            short(&html, 800),
            short(&squash(&out), 400),
            short(&squash(&exp), 400)
        ));
    }
    // a definition term is emphasised text on lines of its own: `<dl><dt>X</dt></dl>` renders like
    // `<p><em>X</em></p>` (the affixes on the same lines as the text they surround)
    {
        let mut ser = Ser::new();
        ser.inlines(&case.inlines);
        let x = ser.out;
        let as_dt = render(&cfg, format!("<dl><dt>{}</dt></dl>", x).as_bytes(), case.width);
        let as_em = render(&cfg, format!("<p><em>{}</em></p>", x).as_bytes(), case.width);
        if let (Rend::Ok(a), Rend::Ok(b)) = (&as_dt, &as_em) {
            let core = |s: &str| -> Vec<String> {
                let v: Vec<String> = s.lines().map(|l| l.trim_end().to_string()).collect();
                let first = v.iter().position(|l| !l.is_empty()).unwrap_or(v.len());
                let last = v.iter().rposition(|l| !l.is_empty()).map(|i| i + 1).unwrap_or(first);
                v[first..last].to_vec()
            };
            st.class("dt_as_em_compared");
            if core(a) != core(b) {
                return Err(format!(
                    "a <dt> does not render like the same content in <em> (w={})\n strings={:?}\n content={}\n dt={:?}\n em={:?}",
                    case.width, case.strings, short(&x, 600), core(a), core(b)
                ));
            }
        }
    }
    if !case.strings.is_ascii() {
        st.nontrivial(case);
    }
    Ok(())
}

fn affix_inlines_ok(v: &[Inline]) -> bool {
    // keep links non-empty (an empty link is dropped) and text visible
    gen::inlines_visible(v)
        && v.iter().all(|i| match i {
            Inline::A { href, kids, .. } => href.is_none() || gen::inlines_visible(kids),
            Inline::El(_, _, k) => k.is_empty() || affix_inlines_ok_nested(k),
            _ => true,
        })
}
fn affix_inlines_ok_nested(v: &[Inline]) -> bool {
    v.iter().all(|i| match i {
        Inline::A { href, kids, .. } => (href.is_none() || gen::inlines_visible(kids)) && affix_inlines_ok_nested(kids),
        Inline::El(_, _, k) => affix_inlines_ok_nested(k),
        _ => true,
    })
}

fn affix_case() -> BoxedStrategy<AffixCase> {
    let mut g = G::default();
    g.br = false;
    g.unknown = true;
    g.max_inl = 4;
    (gen::inlines(&g, 2), 20usize..=80, deco_strings())
        .prop_map(|(mut inlines, width, strings)| {
            if !affix_inlines_ok(&inlines) {
                inlines = vec![Inline::El(ITag::Em, Default::default(), vec![Inline::Text(Txt::simple(3))])];
            }
            AffixCase { inlines, width, strings }
        })
        .boxed()
}

fn doc_case_custom() -> BoxedStrategy<DecoDocCase> {
    let g = G::default();
    (gen::doc(&g), 4usize..=80, deco_strings()).prop_map(|(doc, width, strings)| DecoDocCase { doc, width, strings }).boxed()
}

fn wrap_case_custom() -> BoxedStrategy<DecoWrapCase> {
    let mut g = G::default().depth(1);
    g.max_blocks = 2;
    let wrap = prop_oneof![
        3 => Just(Wrap::Ul),
        4 => gen::ol_start().prop_map(Wrap::Ol),
        3 => Just(Wrap::Quote),
        1 => Just(Wrap::Dd),
        3 => (1u8..=6).prop_map(Wrap::H),
    ];
    let items = prop::collection::vec(gen::blocks(&g, 1), 1..5);
    let hinl = gen::inlines(&g, 1);
    (wrap, items, hinl, 4usize..=80, deco_strings())
        .prop_map(|(wrap, mut items, hinl, width, strings)| {
            if let Wrap::H(_) = wrap {
                items = vec![vec![Block::Inl(hinl)]];
            }
            DecoWrapCase { inner: WrapCase { wrap, items, width, rich: false, decorate: false, lead: false }, strings }
        })
        .boxed()
}

pub fn property() -> Property {
    let _ = cfg_any;
    Property {
        id: "C16",
        level: "exploration",
        rule: "decorators from a family parameterised by 19 strings (link/em/strong/strikeout/code/image/superscript affixes; heading unit+tail, quote, list, ordered-tail prefixes) drawn from {empty, ASCII, 2-byte width-1 (§ • │ « é), 3-byte width-2 (） 〖 〗 ＊ ＞), combining, mixed}; (1) grammar documents (incl. tables) x width 4..=80: no panic (debug assertions on), Ok or TooNarrow, every line <= width; (2) a wrapper (ul / ol / blockquote / dd / h1..h6) around generated content: the rendering equals the oracle's prefix (continuation indentation = spaces of the prefix's display width; ordered markers padded by display width) + the content rendered on its own at width - display_width(prefix); (3) a paragraph of nested inline elements with identifying characters: the output with whitespace removed equals the text stream with the decorator's affixes inserted verbatim at the element boundaries. TrivialDecorator producing nothing but text and borders is checked by C03's trivial-decorator comparison. Non-trivial = a non-ASCII string is used by the case; distinct by the whole case.",
        assumptions: vec!["display width = sum of unicode-width character widths", "whitespace inside affixes is not compared (wrapping may drop it at line ends)"],
        hang_is_violation: false,
        subs: vec![
            PropSub::new("total", 24_000, 240_000, doc_case_custom, check_total).with_validity(|c| c.doc.valid()).boxed(),
            PropSub::new("compose", 24_000, 240_000, wrap_case_custom, check_compose).with_validity(|c| !c.inner.items.is_empty() && c.inner.items.iter().all(|i| gen::valid_blocks(i))).boxed(),
            PropSub::new("affix", 24_000, 240_000, affix_case, check_affix).with_validity(|c| !c.inlines.is_empty() && affix_inlines_ok(&c.inlines)).boxed(),
        ],
    }
}
