//! C02 — no output line is wider than the requested width.
use super::common::*;
use crate::cfg::{render, render_lines, oline_text, CfgSpec, Deco, Rend};
use super::fuzzsub::FuzzSub;
use crate::engine::{PropSub, Property, Stats};
use crate::gen::{census, G};
use crate::odom;
use crate::util::{cw, line_width};

/// Known finding KF-C02-href: at width 1 a footnote line holding a width-2 character of a link
/// target is 2 columns wide (`fmt_links` cannot report TooNarrow).
pub fn kf_wide_href(html: &[u8], width: usize, cfg: &CfgSpec) -> bool {
    if width != 1 || !cfg.footnotes_on() {
        return false;
    }
    let dom = odom::parse(html);
    (0..dom.nodes.len()).any(|n| {
        dom.name(n) == Some("a") && dom.attr(n, "href").map(|h| h.chars().any(|c| cw(c) > 1)).unwrap_or(false)
    })
}

pub fn check_width(case: &DocCase, st: &mut Stats) -> Result<(), String> {
    let html = case.html();
    let w = case.width;
    if case.cfg.overflow || case.cfg.no_link_wrap {
        return Err("harness: C02 domain excludes overflow / no_link_wrapping".into());
    }
    if !case.muts.is_empty() && kf_wide_href(&html, w, &case.cfg) {
        st.exclude("KF-C02-href");
        return Ok(());
    }
    let r = render(&case.cfg, &html, w);
    st.class(r.kind());
    if let Some(b) = r.bad() {
        return Err(format!("{} (w={})", b, w));
    }
    st.sample(|| case.sample());
    if let Rend::Ok(s) = &r {
        let mut pressed = false;
        for l in s.lines() {
            let lw = line_width(l);
            if lw > w {
                return Err(format!("line wider than width: {} > {}: {:?}\nhtml={}", lw, w, l, String::from_utf8_lossy(&html)));
            }
            if lw + 1 >= w {
                pressed = true;
            }
        }
        let c = census(&case.doc.blocks);
        let structured = c.tables + c.lists + c.quotes + c.headings + c.dls > 0;
        if c.tables > 0 {
            st.class("has_table");
        }
        if c.nested_tables > 0 {
            st.class("has_nested_table");
        }
        if pressed {
            st.class("bound_pressed");
        }
        if pressed || structured {
            if st.nontrivial(case) {
                st.nt_sample(|| case.sample());
            }
        }
        // the line-oriented route states the same bound per TaggedLine
        if case.cfg.deco == Deco::Rich {
            if let Rend::Ok(ls) = render_lines(&case.cfg, &html, w) {
                for l in &ls {
                    let t = oline_text(l);
                    if line_width(&t) > w {
                        return Err(format!("tagged line wider than width: {} > {}: {:?}", line_width(&t), w, t));
                    }
                }
            }
        }
    }
    Ok(())
}

pub fn property() -> Property {
    let g = G::default().depth(3);
    let g2 = G::default().depth(2);
    Property {
        id: "C02",
        level: "exploration",
        rule: "grammar documents (tables with colspans 0..4 and nested tables, lists/quotes/headings to depth 3, pre, links, wide and combining characters) and byte-mutated ones x width 1..=120 x bounded option mixes; oracle: every line of Ok output has display width <= width. Non-trivial = some line has width >= w-1 or the document has a table / prefixed block; distinct by (document, mutations, width, config).",
        assumptions: vec!["unicode-width is the width measure (as the property states)", "generated documents up to ~150 nodes"],
        hang_is_violation: false,
        subs: vec![
            PropSub::new("grammar", 48_000, 480_000, move || doc_case(g.clone(), 1..=120, cfg_bounded(), false), check_width).with_validity(|c| c.doc.valid()).boxed(),
            PropSub::new("mutated", 24_000, 240_000, move || doc_case(g2.clone(), 1..=120, cfg_bounded(), true), check_width).with_validity(|c| c.doc.valid()).boxed(),
            FuzzSub { name: "fuzz_render", target: "fuzz_render", props: &["C02"], seconds: 120 }.boxed(),
            FuzzSub { name: "fuzz_struct", target: "fuzz_struct", props: &["C02"], seconds: 120 }.boxed(),
        ],
    }
}
