//! C02 — no output line is wider than the requested width.
use super::common::*;
use crate::cfg::{render, render_lines, oline_text, CfgSpec, Deco, Rend};
use super::fuzzsub::FuzzSub;
use crate::engine::{PropSub, Property, Stats};
use crate::gen::{census, G};
use proptest::prelude::*;
use crate::util::{cw, line_width};

pub fn check_width(case: &DocCase, st: &mut Stats) -> Result<(), String> {
    let html = case.html();
    let w = case.width;
    if case.cfg.overflow || case.cfg.no_link_wrap {
        return Err("harness: C02 domain excludes overflow / no_link_wrapping".into());
    }
    let r = render(&case.cfg, &html, w);
    st.class(r.kind());
    if let Some(b) = r.bad() {
        return Err(format!("{} (w={})", b, w));
    }
    st.sample(|| case.sample());
    if let Rend::Ok(s) = &r {
        let mut pressed = false;
        for l in s.lines() {
            let lw = line_width(l);
            if lw > w {
                return Err(format!("line wider than width: {} > {}: {:?}\nhtml={}", lw, w, l, String::from_utf8_lossy(&html)));
            }
            if lw + 1 >= w {
                pressed = true;
            }
        }
        let c = census(&case.doc.blocks);
        let structured = c.tables + c.lists + c.quotes + c.headings + c.dls > 0;
        if c.tables > 0 {
            st.class("has_table");
        }
        if c.nested_tables > 0 {
            st.class("has_nested_table");
        }
        if pressed {
            st.class("bound_pressed");
        }
        if pressed || structured {
            if st.nontrivial(case) {
                st.nt_sample(|| case.sample());
            }
        }
        // the line-oriented route states the same bound per TaggedLine
        if case.cfg.deco == Deco::Rich {
            if let Rend::Ok(ls) = render_lines(&case.cfg, &html, w) {
                for l in &ls {
                    let t = oline_text(l);
                    if line_width(&t) > w {
                        return Err(format!("tagged line wider than width: {} > {}: {:?}", line_width(&t), w, t));
                    }
                }
            }
        }
    }
    Ok(())
}

/// Explicit input (regressions of fixed defects).
#[derive(Clone, Debug, serde::Serialize, serde::Deserialize, PartialEq, Eq, Hash)]
pub struct WidthCase {
    pub html: String,
    pub width: usize,
    #[serde(default)]
    pub footnotes: bool,
}

pub fn check_explicit(case: &WidthCase, st: &mut Stats) -> Result<(), String> {
    let mut cfg = CfgSpec::plain();
    if case.footnotes {
        cfg.footnotes = Some(true);
    }
    let r = render(&cfg, case.html.as_bytes(), case.width);
    st.class(r.kind());
    if let Some(b) = r.bad() {
        return Err(format!("{} (w={})", b, case.width));
    }
    if let Rend::Ok(s) = &r {
        for l in s.lines() {
            if line_width(l) > case.width {
                return Err(format!("line wider than width: {} > {}: {:?}\nhtml={}", line_width(l), case.width, l, case.html));
            }
        }
    }
    st.nontrivial(case);
    Ok(())
}

fn regression_items() -> Vec<WidthCase> {
    let mk = |html: &str, width: usize, footnotes: bool| WidthCase { html: html.into(), width, footnotes };
    vec![
        // 8efba1e: prefix wider than the width in front of a zero-width block that renders a line
        mk("<ol><li><table><tr><td></td></tr></table></li></ol>", 1, false),
        mk("<ul><li><table><tr><td></td></tr></table></li></ul>", 1, false),
        mk("<blockquote><table><tr><td></td></tr></table></blockquote>", 1, false),
        // footnote holding a character wider than the width
        mk("<p><a href=\"\u{4e00}\">b</a></p>", 1, true),
        // 22d0245
        mk("<table><tr><td>ccc<td>d<tr><td colspan=2>eeeeeeeeee</table>", 3, false),
    ]
}

/// cfg_bounded, a quarter of the time with use_doc_css (style attributes of literal-markup leaves: white-space, colour, display)
fn cfg_bounded_css() -> BoxedStrategy<CfgSpec> {
    (cfg_bounded(), proptest::bool::weighted(0.25)).prop_map(|(mut c, css)| { c.doc_css = css; c }).boxed()
}

pub fn property() -> Property {
    let g = G::default().depth(3).with_digit_sup().with_pre_inline();
    let g2 = G::default().depth(2).with_digit_sup().with_pre_inline();
    Property {
        id: "C02",
        level: "exploration",
        rule: "grammar documents (tables with colspans 0..4 and nested tables, lists/quotes/headings to depth 3, pre, links, wide and combining characters) and byte-mutated ones x width 1..=120 x bounded option mixes; oracle: every line of Ok output has display width <= width. Non-trivial = some line has width >= w-1 or the document has a table / prefixed block; distinct by (document, mutations, width, config).",
        assumptions: vec!["unicode-width is the width measure (as the property states)", "generated documents up to ~150 nodes"],
        hang_is_violation: false,
        subs: vec![
            crate::engine::EnumSub::new("regressions", false, |_| regression_items(), check_explicit).boxed(),
            PropSub::new("grammar", 48_000, 480_000, move || doc_case(g.clone(), 1..=120, cfg_bounded_css(), false), check_width).with_validity(|c| c.doc.valid()).boxed(),
            PropSub::new("mutated", 24_000, 240_000, move || doc_case(g2.clone(), 1..=120, cfg_bounded(), true), check_width).with_validity(|c| c.doc.valid()).boxed(),
            FuzzSub { name: "fuzz_render", target: "fuzz_render", props: &["C02"], seconds: 120 }.boxed(),
            FuzzSub { name: "fuzz_struct", target: "fuzz_struct", props: &["C02"], seconds: 120 }.boxed(),
        ],
    }
}
