//! C01 — rendering is total: any bytes, width and configuration; never panics or hangs.
use super::common::*;
use crate::cfg::{render, render_route, staged_renders, CfgSpec, Deco, Rend, Route, StagedKind};
use super::fuzzsub::FuzzSub;
use crate::engine::{Ctx, EnumSub, PropSub, Property, Stats, Tier};
use crate::gen::{self, Doc, Mutation, G};
use crate::odom;
use crate::util::short;
use proptest::prelude::*;
use serde::{Deserialize, Serialize};
use serde_json::json;
use std::time::{Duration, Instant};

#[derive(Clone, Debug, Serialize, Deserialize, PartialEq, Eq, Hash)]
pub enum W {
    Small(u8),
    Big,
    Max,
    MaxMinus(u8),
}

impl W {
    pub fn get(&self) -> usize {
        match self {
            W::Small(k) => (*k as usize).min(200),
            W::Big => 100_000,
            W::Max => usize::MAX,
            W::MaxMinus(k) => usize::MAX - *k as usize,
        }
    }
    pub fn extreme(&self) -> bool {
        !matches!(self, W::Small(k) if *k > 2)
    }
}

#[derive(Clone, Debug, Serialize, Deserialize, PartialEq, Eq, Hash)]
pub struct TotalCase {
    pub doc: Doc,
    #[serde(default, skip_serializing_if = "Vec::is_empty")]
    pub muts: Vec<Mutation>,
    /// raw bytes instead of a document (corpus entries); lossy-decoded on replay
    #[serde(default, skip_serializing_if = "Option::is_none")]
    pub raw: Option<String>,
    pub width: W,
    pub cfg: CfgSpec,
}

impl TotalCase {
    pub fn html(&self) -> Vec<u8> {
        if let Some(r) = &self.raw {
            return r.as_bytes().to_vec();
        }
        let h = self.doc.to_html();
        if self.muts.is_empty() {
            h.into_bytes()
        } else {
            gen::mutate(h.as_bytes(), &self.muts)
        }
    }
}

const SHEETS: &[&str] = &[
    "p{color:#f00}",
    "p { color: red; } .a { display: none; } #i1 { background-color: #00ff00 !important; }",
    "div > p:nth-child(2n+1) { color: #123456; white-space: pre; }",
    "* { color: blue } li:nth-child(odd) { display: none }",
    "td, th { color: #abc } table { background: #111 } tr:nth-child(even) td { display:none }",
    "em::before { content: \"<<\" } em::after { content: '>>' } pre { white-space: normal }",
    "@media print { p { display: none } } h1 { height: 0; overflow: hidden }",
    "p { white-space: pre-wrap } ul { max-height: 0; overflow: hidden; } a { display: x-raw-dom }",
    "x{",
    "}}}{{{;;;",
    // generated content on every kind of node (tables, rows, cells, lists, items, leaves, the root)
    "*::before { content: \"\\201c\" } *::after { content: \"]\" }",
    "table::after, tr::after, td::before, tbody::after { content: 'T' } li::before, ul::after, ol::before, dl::after, dt::after { content: \"\u{4e00}\" } img::after, br::after, hr::before, pre::after, a::after, sup::before { content: 'x y' }",
    "p { height: 0.0pt; overflow: hidden } div { max-height: 0.50em; overflow-y: hidden } td { color: rgb( 1 , 2 , 3 ); background: rgb(300,0,0) } h2 { height: auto; overflow: visible }",
];

pub fn check_total(case: &TotalCase, st: &mut Stats) -> Result<(), String> {
    let html = case.html();
    let w = case.width.get();
    let mut cfg = case.cfg.clone();
    if w > 200 {
        // padding allocates width-many cells per line: bounded widths only (property domain)
        cfg.pad = false;
    }
    st.sample(|| json!({"html": short(&String::from_utf8_lossy(&html), 300), "width": format!("{:?}", case.width), "cfg": cfg_brief(&cfg)}));
    let show = || format!("width={} cfg={} html={:?}", w, cfg_brief(&cfg), short(&String::from_utf8_lossy(&html), 1200));
    let verdict = |r: &Rend<String>, route: &str| -> Result<(), String> {
        match r {
            Rend::Ok(_) | Rend::TooNarrow => Ok(()),
            Rend::CssErr => Ok(()), // add_css rejected the sheet: decided by C17
            Rend::Err(e) => Err(format!("{} returned an error other than TooNarrow: {}\n{}", route, e, show())),
            Rend::Panic(p) => Err(format!("PANIC in {}: {}\n{}", route, p, show())),
        }
    };
    let r = render(&cfg, &html, w);
    verdict(&r, "string_from_read")?;
    st.class(r.kind());
    for route in [Route::Lines, Route::Coloured] {
        if route == Route::Coloured && cfg.deco != Deco::Rich {
            continue;
        }
        let x = render_route(&cfg, &html, w, route);
        verdict(&x, &format!("{:?}", route))?;
    }
    match staged_renders(&cfg, &html, &[(w, StagedKind::Str), (w, StagedKind::Lines)]) {
        Rend::Ok(v) => {
            for x in &v {
                verdict(x, "staged render")?;
            }
        }
        Rend::CssErr => {}
        Rend::TooNarrow => {}
        Rend::Err(e) => return Err(format!("parse_html/dom_to_render_tree failed: {}\n{}", e, show())),
        Rend::Panic(p) => return Err(format!("PANIC in parse_html/dom_to_render_tree: {}\n{}", p, show())),
    }
    let elements = {
        let dom = odom::parse(&html);
        dom.elements().count()
    };
    if elements >= 3 + 3 || case.width.extreme() || cfg.n_options() >= 2 {
        st.nontrivial(&(&html, w, &cfg));
    }
    if case.width.extreme() {
        st.class("extreme_width");
    }
    if !cfg.user_css.is_empty() || cfg.doc_css {
        st.class("with_css");
    }
    Ok(())
}

fn width_sel() -> BoxedStrategy<W> {
    prop_oneof![
        10 => (0u8..=200).prop_map(W::Small),
        3 => (0u8..=4).prop_map(W::Small),
        1 => Just(W::Big),
        1 => Just(W::Max),
        1 => (1u8..5).prop_map(W::MaxMinus),
    ]
    .boxed()
}

fn cfg_total() -> BoxedStrategy<CfgSpec> {
    (cfg_any(), prop::bool::weighted(0.3), prop::option::weighted(0.3, 0usize..SHEETS.len()), prop::option::weighted(0.1, 0usize..SHEETS.len()))
        .prop_map(|(mut c, doc_css, user, agent)| {
            c.doc_css = doc_css;
            if let Some(i) = user {
                c.user_css = vec![SHEETS[i].to_string()];
            }
            if let Some(i) = agent {
                c.agent_css = vec![SHEETS[i].to_string()];
            }
            c
        })
        .boxed()
}

/// Regular and irregular tables with many empty cells at small widths (column arithmetic).
fn table_case() -> BoxedStrategy<TotalCase> {
    use crate::gen::{Attrs, Block, Cell, Inline, Row, Table, Txt};
    let cell = (prop_oneof![5 => Just(1u32), 1 => Just(2u32), 1 => Just(3u32), 1 => Just(0u32), 1 => Just(7u32)], prop_oneof![3 => Just(0u8), 2 => 1u8..4, 1 => 4u8..30]).prop_map(|(colspan, len)| Cell {
        th: false,
        colspan,
        attrs: Attrs::none(),
        kids: if len == 0 { vec![] } else { vec![Block::Inl(vec![Inline::Text(Txt::simple(len))])] },
    });
    let row = prop::collection::vec(cell, 1..9).prop_map(|cells| Row { attrs: Attrs::none(), cells });
    let table = (prop::collection::vec(row, 1..5), any::<bool>(), 0usize..2).prop_map(|(rows, sections, head_rows)| Block::Table(Table { attrs: Attrs::none(), head_rows, sections, rows }));
    let width = prop_oneof![6 => (0u8..=12).prop_map(W::Small), 3 => (0u8..=200).prop_map(W::Small), 1 => Just(W::Max), 1 => Just(W::Big)];
    (table, width, cfg_total()).prop_map(|(t, width, cfg)| TotalCase { doc: Doc::of(vec![t]), muts: vec![], raw: None, width, cfg }).boxed()
}

fn total_case(g: G, mutate: bool) -> BoxedStrategy<TotalCase> {
    let muts = if mutate { gen::mutations() } else { Just(vec![]).boxed() };
    (gen::doc(&g), muts, width_sel(), cfg_total())
        .prop_map(|(doc, muts, width, cfg)| TotalCase { doc, muts, raw: None, width, cfg })
        .boxed()
}

// ---------------------------------------------------------------------------------------------
// nesting ladder (child processes: stack exhaustion and hangs cannot be caught in-process)

pub const LADDER: &[(&str, &str, bool)] = &[
    // (opening pattern, text, cheap = allowed at depth 1e5)
    ("<div>", "x", false),
    ("<span>", "x", true),
    ("<em>", "x", true),
    ("<b>", "x", true),
    ("<blockquote>", "x", false),
    ("<ul><li>", "x", false),
    ("<ol><li>", "x", false),
    ("<dl><dd>", "x", false),
    ("<table><tr><td>", "x", false),
    ("<pre>", "x", false),
    ("<sup>", "x", false),
    ("<h1>", "x", false),
    ("<p><a href=u>", "x", false),
    ("<s>", "x", false),
    ("<code>", "x", true),
    ("<strong>", "x", true),
    ("<i><u>", "x", true),
    ("<div><span><em>", "x", false),
    ("<ul><li><blockquote>", "x", false),
    ("<table><tr><td><ul><li>", "x", false),
    ("<dl><dt>", "x", false),
    ("<font color=red>", "x", true),
    ("<a name=n>", "x", true),
    ("<ins><del>", "x", false),
];

#[derive(Clone, Debug, Serialize, Deserialize, PartialEq, Eq, Hash)]
pub struct LadderCase {
    pub pattern: usize,
    pub depth: usize,
    pub overflow: bool,
    pub width: usize,
    pub timeout_s: u64,
    /// address-space limit for the child in KiB (0 = none)
    #[serde(default)]
    pub mem_kb: u64,
    /// stack limit for the child in KiB (0 = the default, normally 8 MiB)
    #[serde(default)]
    pub stack_kb: u64,
}

pub fn ladder_html(pattern: usize, depth: usize) -> String {
    let (open, text, _) = LADDER[pattern % LADDER.len()];
    let mut s = String::with_capacity(open.len() * depth + 8);
    for _ in 0..depth {
        s.push_str(open);
    }
    s.push_str(text);
    s
}

/// Runs in the child process, on the main thread.
pub fn ladder_worker(pattern: usize, depth: usize, overflow: bool, width: usize) -> i32 {
    let html = ladder_html(pattern, depth);
    let mut cfgs = vec![CfgSpec::plain(), CfgSpec::rich()];
    for c in cfgs.iter_mut() {
        c.overflow = overflow;
    }
    for c in &cfgs {
        match render(c, html.as_bytes(), width) {
            Rend::Ok(_) | Rend::TooNarrow => {}
            other => {
                println!("LADDER-FAIL {:?} {}", other.kind(), other.bad().unwrap_or_default());
                return 3;
            }
        }
    }
    println!("LADDER-OK");
    0
}

pub fn check_ladder(case: &LadderCase, st: &mut Stats) -> Result<(), String> {
    let exe = std::env::current_exe().map_err(|e| format!("harness: current_exe: {}", e))?;
    let t0 = Instant::now();
    let inner = format!(
        "{} worker-ladder {} {} {} {}",
        exe.display(),
        case.pattern,
        case.depth,
        if case.overflow { "1" } else { "0" },
        case.width
    );
    let mut script = String::new();
    if case.mem_kb > 0 {
        script.push_str(&format!("ulimit -v {}; ", case.mem_kb));
    }
    if case.stack_kb > 0 {
        script.push_str(&format!("ulimit -s {}; ", case.stack_kb));
    }
    script.push_str(&format!("exec {}", inner));
    let mut child = std::process::Command::new("/bin/sh")
        .args(["-c", &script])
        .stdout(std::process::Stdio::piped())
        .stderr(std::process::Stdio::null())
        .spawn()
        .map_err(|e| format!("harness: spawn: {}", e))?;
    let desc = format!("{:?} x {} (overflow={}, width={})", LADDER[case.pattern % LADDER.len()].0, case.depth, case.overflow, case.width);
    loop {
        match child.try_wait() {
            Ok(Some(status)) => {
                let secs = t0.elapsed().as_secs_f64();
                st.class(if secs > 10.0 { "ladder_slow(>10s)" } else { "ladder_fast" });
                st.sample(|| json!({"nesting": desc.clone(), "seconds": secs}));
                st.nontrivial(case);
                if status.success() {
                    return Ok(());
                }
                use std::os::unix::process::ExitStatusExt;
                let mut out = String::new();
                if let Some(mut so) = child.stdout.take() {
                    use std::io::Read;
                    let _ = so.read_to_string(&mut out);
                }
                return Err(match status.signal() {
                    Some(sig) => format!("ABORT: child killed by signal {} (stack exhaustion / abort) on nesting {}", sig, desc),
                    None => format!("PANIC/ERROR in child (exit {:?}) on nesting {}: {}", status.code(), desc, short(&out, 300)),
                });
            }
            Ok(None) => {
                if t0.elapsed() > Duration::from_secs(case.timeout_s) {
                    let _ = child.kill();
                    let _ = child.wait();
                    return Err(format!("HANG: nesting {} did not finish within {} s", desc, case.timeout_s));
                }
                std::thread::sleep(Duration::from_millis(20));
            }
            Err(e) => return Err(format!("harness: wait: {}", e)),
        }
    }
}

fn ladder_items(ctx: &Ctx) -> Vec<LadderCase> {
    let mut v = vec![];
    for p in 0..LADDER.len() {
        let (open, _, cheap) = LADDER[p];
        for overflow in [false, true] {
            let mut depths: Vec<usize> = match ctx.tier {
                Tier::Quick => {
                    if cheap {
                        vec![1_000, 10_000]
                    } else {
                        vec![1_000, 4_000]
                    }
                }
                Tier::Thorough => {
                    if cheap {
                        vec![1_000, 10_000, 100_000]
                    } else {
                        vec![1_000, 10_000, 30_000]
                    }
                }
            };
            if overflow && !cheap {
                // with overflow allowed every level of a prefixed block widens the output: time grows
                // super-linearly with depth, so these variants stop at 10^4 levels
                depths.retain(|d| *d <= 10_000);
            }
            if open == "<sup>" {
                // KF-C01-deep-sup: quadratic memory (every piece carries its whole annotation stack)
                depths.retain(|d| *d <= 10_000);
            }
            if overflow && open == "<table><tr><td><ul><li>" {
                // with overflow every level widens every line: cubic time (17 s at depth 1000, measured);
                // slow, not a hang - the ladder stays where a run is a matter of seconds
                depths = if ctx.tier == Tier::Quick { vec![300] } else { vec![300, 1_000] };
            }
            for d in depths {
                // generous: measured times are < 1/30 of these limits on this machine
                let timeout_s = if d >= 30_000 { 3600 } else { 600 };
                v.push(LadderCase { pattern: p, depth: d, overflow, width: if overflow { 10 } else { 80 }, timeout_s, mem_kb: 24 << 20, stack_kb: 0 });
            }
        }
    }
    // regression (fixed): dropping an unrendered deep tree must not need stack per nesting level -
    // a 1 MiB stack is enough for 4000 levels of <ul><li><blockquote> that end in TooNarrow
    v.push(LadderCase { pattern: 18, depth: 4_000, overflow: false, width: 80, timeout_s: 600, mem_kb: 4 << 20, stack_kb: 1024 });
    v.push(LadderCase { pattern: 8, depth: 2_000, overflow: false, width: 80, timeout_s: 600, mem_kb: 4 << 20, stack_kb: 1024 });
    v
}

// ---------------------------------------------------------------------------------------------
// regression / corpus inputs

fn regression_items(_ctx: &Ctx) -> Vec<TotalCase> {
    let mut v = vec![];
    let inputs: Vec<(&str, W, CfgSpec)> = vec![
        ("<ol start=\"9223372036854775807\"><li>a<li>b</ol>", W::Small(20), CfgSpec::plain()),
        ("<ol start=\"-9223372036854775808\"><li>a<li>b</ol>", W::Small(20), CfgSpec::plain()),
        ("<table><tr><td colspan=18446744073709551615>a<td>b</table>", W::Small(20), CfgSpec::plain()),
        ("<ul><li><pre>\t</pre></li></ul>", W::Small(2), CfgSpec { min_wrap: Some(0), ..CfgSpec::plain() }),
        ("<ul><li><pre> a</pre></li></ul>", W::Small(2), CfgSpec { min_wrap: Some(0), ..CfgSpec::plain() }),
        ("<table><tr><td colspan=0><td colspan=0>x</table>", W::Small(1), CfgSpec::plain()),
        ("<table><tr><td>a<td colspan=3>b<tr><td colspan=9999999999>c</table>", W::Max, CfgSpec { raw: true, ..CfgSpec::plain() }),
        ("<p>\u{263a}\u{fe0f} x</p>", W::Small(3), CfgSpec { pad: true, ..CfgSpec::plain() }),
    ];
    for (h, w, c) in inputs {
        v.push(TotalCase { doc: Doc::default(), muts: vec![], raw: Some(h.to_string()), width: w, cfg: c });
    }
    v
}

pub fn property() -> Property {
    let g = G::default().with_digit_sup().with_pre_inline();
    let g2 = G::default().depth(3).with_digit_sup().with_pre_inline();
    Property {
        id: "C01",
        level: "exploration",
        rule: "byte-mutated and unmutated grammar documents (numeric-attribute dictionary for colspan/start incl. 0, negatives, 2^63-1, 2^64, junk; control characters, invalid UTF-8, unclosed tags, foreign content) x width in {0..=200, 10^5, usize::MAX-k} x configuration in {plain, plain_no_decorate, rich, trivial, ASCII custom decorator} x option subsets incl. use_doc_css/add_css/add_agent_css sheets; all entry points (string_from_read, lines_from_read, coloured, parse_html+dom_to_render_tree+render_to_string/render_to_lines); built with overflow checks and debug assertions on; oracle: result in {Ok, Err(TooNarrow)}, no panic, no other error, no hang (watchdog); nesting ladder: 24 opening-tag patterns repeated 10^3/10^4 (quick) up to 10^5 (thorough) in child processes on the main thread: no abort/stack exhaustion/hang. Non-trivial = >= 6 elements in the parsed document, or an extreme width, or >= 2 options; distinct by (bytes, width, config).",
        assumptions: vec![
            "pad_block_width only with widths <= 200 (the property bounds it)",
            "non-ASCII decorator strings are C16's subject",
            "a hang is declared when one case makes no progress for 60 s (in-process) or a ladder child exceeds its limit (>= 30x the measured time)",
        ],
        hang_is_violation: true,
        subs: vec![
            EnumSub::new("regressions", false, regression_items, check_total).boxed(),
            PropSub::new("mutated", 40_000, 400_000, move || total_case(g.clone(), true), check_total).with_validity(|c| c.doc.valid()).boxed(),
            PropSub::new("grammar", 16_000, 160_000, move || total_case(g2.clone(), false), check_total).with_validity(|c| c.doc.valid()).boxed(),
            PropSub::new("tables", 16_000, 160_000, table_case, check_total).boxed(),
            EnumSub::new("ladder", false, ladder_items, check_ladder).with_hang_secs(4000).boxed(),
            FuzzSub { name: "fuzz_render", target: "fuzz_render", props: &["C01"], seconds: 300 }.boxed(),
            FuzzSub { name: "fuzz_struct", target: "fuzz_struct", props: &["C01"], seconds: 180 }.boxed(),
        ],
    }
}
