//! C18 — display:none hides exactly the matched subtrees; document styles need use_doc_css.
use super::common::cfg_brief;
use super::csscommon::*;
use crate::cfg::{render, render_lines, CfgSpec, Deco, Rend};
use crate::cssgen::{self, canonical_css, sheet_to_css, Complex, Decl, Prop, Rule, Sheet, Styling, Variant};
use crate::engine::{EnumSub, PropSub, Property, Stats};
use crate::gen::{self, for_attrs_mut, Doc, G};
use crate::odom;
use crate::util::short;
use proptest::prelude::*;
use serde::{Deserialize, Serialize};
use serde_json::json;

#[derive(Clone, Debug, Serialize, Deserialize, PartialEq, Eq, Hash)]
pub struct HideCase {
    pub doc: Doc,
    pub styling: Styling,
    pub width: usize,
    pub rich: bool,
    pub variant: Variant,
}

fn base_cfg(rich: bool) -> CfgSpec {
    if rich {
        CfgSpec::rich()
    } else {
        CfgSpec::plain()
    }
}

pub fn check_hide(case: &HideCase, st: &mut Stats) -> Result<(), String> {
    let sc = StyledCase { doc: case.doc.clone(), styling: case.styling.clone(), width: case.width, use_doc_css: true, variant: case.variant.clone() };
    let html = sc.html();
    let mut cfg = sc.cfg();
    cfg.deco = if case.rich { Deco::Rich } else { Deco::Plain };
    if !case.rich {
        cfg.footnotes = Some(true);
        cfg.decorate = true;
    }
    let w = case.width;
    let dom = odom::parse(html.as_bytes());
    let plain_cfg = {
        let mut c = base_cfg(case.rich);
        if !case.rich {
            c.footnotes = Some(true);
            c.decorate = true;
        }
        c
    };
    st.sample(|| json!({"agent": cfg.agent_css, "user": cfg.user_css, "html": short(&html, 500), "width": w}));
    // sanity of the oracle's serialiser: re-serialising the DOM does not change the rendering
    let roundtrip = dom.to_html(&|_| false, true);
    let r0 = render(&plain_cfg, html.as_bytes(), w);
    let r1 = render(&plain_cfg, roundtrip.as_bytes(), w);
    if r0 != r1 {
        st.class("oracle_roundtrip_mismatch(discarded)");
        return Ok(());
    }
    // (2) document styles have no effect without use_doc_css (user/agent sheets removed too)
    let stripped = roundtrip.clone();
    if r0 != render(&plain_cfg, stripped.as_bytes(), w) {
        return Err("unreachable".into());
    }
    {
        // the original document (with <style> and style attributes), doc css NOT enabled
        let a = render(&plain_cfg, html.as_bytes(), w);
        let b = render(&plain_cfg, stripped.as_bytes(), w);
        if a != b {
            return Err(format!(
                "styles written in the document change the output although use_doc_css is off (w={})\n html={}\n with styles={:?}\n stripped   ={:?}",
                w,
                short(&html, 900),
                a.as_ok().map(|s| short(s, 400)),
                b.as_ok().map(|s| short(s, 400))
            ));
        }
    }
    // (1) hidden subtrees behave as if deleted
    let hidden: Vec<bool> = (0..dom.nodes.len()).map(|n| dom.is_elem(n) && cssgen::computed(&dom, n, &case.styling, true).hidden).collect();
    let nhidden = dom.elements().filter(|n| hidden[*n]).count();
    let deleted = dom.to_html(&|n| hidden[n], true);
    let got = render(&cfg, html.as_bytes(), w);
    let exp = render(&plain_cfg, deleted.as_bytes(), w);
    for r in [&got, &exp] {
        if let Some(b) = r.bad() {
            return Err(format!("{}\nhtml={}", b, short(&html, 800)));
        }
    }
    if got != exp {
        return Err(format!(
            "hidden elements do not behave as if deleted (w={}, {} hidden)\n agent={:?}\n user={:?}\n html={}\n rendered with css ={:?}\n rendered deleted  ={:?}\n deleted document  ={}",
            w,
            nhidden,
            cfg.agent_css,
            cfg.user_css,
            short(&html, 1000),
            got.as_ok().map(|s| short(s, 500)),
            exp.as_ok().map(|s| short(s, 500)),
            short(&deleted, 800)
        ));
    }
    if case.rich {
        let a = render_lines(&cfg, html.as_bytes(), w);
        let b = render_lines(&plain_cfg, deleted.as_bytes(), w);
        if a != b {
            return Err(format!("hidden elements do not behave as if deleted in the tagged-line output (fragment markers / annotations) (w={})\n html={}\n deleted={}", w, short(&html, 900), short(&deleted, 800)));
        }
    }
    if nhidden > 0 {
        st.class("some_hidden");
        // classes of interesting hidden elements
        let mut interesting = false;
        for n in dom.elements().filter(|n| hidden[*n]) {
            let parent_hidden = dom.ancestors(n).iter().any(|a| hidden[*a]);
            if parent_hidden {
                continue;
            }
            match dom.name(n) {
                Some("li") => {
                    st.class("hidden_li");
                    interesting = true;
                }
                Some("td" | "th") => {
                    st.class("hidden_cell");
                    interesting = true;
                }
                Some("tr") => {
                    st.class("hidden_row");
                    interesting = true;
                }
                Some("a") => {
                    st.class("hidden_link");
                    interesting = true;
                }
                Some("table") => st.class("hidden_table"),
                _ => {}
            }
            if dom.attr(n, "id").is_some() {
                st.class("hidden_with_id");
                interesting = true;
            }
        }
        if interesting && dom.has_visible_text(0) {
            st.nontrivial(case);
            st.nt_sample(|| json!({"user": cfg.user_css, "agent": cfg.agent_css, "html": short(&html, 400), "hidden": nhidden}));
        }
    }
    Ok(())
}

/// A hide-only sheet: display:none or the zero-height idiom on generated / derived selectors.
fn hide_sheet(ids: usize) -> BoxedStrategy<Sheet> {
    let prop = prop_oneof![6 => Just(Prop::DisplayNone), 2 => any::<bool>().prop_map(Prop::ZeroHeightHidden), 2 => any::<bool>().prop_map(Prop::ZeroHeightMixed), 2 => (0u8..6).prop_map(Prop::ZeroHeightUnit), 3 => (0u8..10).prop_map(Prop::NearMiss)];
    prop::collection::vec((prop::collection::vec(cssgen::complex(ids), 1..=2), prop, prop::bool::weighted(0.2)), 0..=3)
        .prop_map(|rules| rules.into_iter().map(|(selectors, prop, important)| Rule { selectors, decls: vec![Decl { prop, important }] }).collect())
        .boxed()
}

fn simple_hide_selectors(ids: usize) -> BoxedStrategy<Vec<Complex>> {
    use crate::cssgen::{Comb, Compound, Part};
    let one = prop_oneof![
        3 => prop::sample::select(cssgen::CLASSES).prop_map(|c| Compound { elem: None, parts: vec![Part::Class(c.to_string())] }),
        3 => (0..ids.max(1)).prop_map(|i| Compound { elem: None, parts: vec![Part::Id(format!("i{}", i))] }),
        2 => prop::sample::select(vec!["li", "td", "tr", "a", "em", "h2", "p", "span", "dd", "th", "table", "ul", "img"]).prop_map(|e| Compound { elem: Some(e.to_string()), parts: vec![] }),
        1 => (prop::sample::select(vec!["li", "td", "p", "tr"]), 1i32..4).prop_map(|(e, b)| Compound { elem: Some(e.to_string()), parts: vec![Part::Nth(crate::cssgen::Nth::B(b))] }),
    ];
    prop::collection::vec(one.prop_map(|c| Complex { steps: vec![(Comb::Desc, c)] }), 1..=2).boxed()
}

fn hide_case() -> BoxedStrategy<HideCase> {
    let mut g = G::default().depth(2);
    g.ids = false;
    (gen::doc(&g), prop::collection::vec(any::<u8>(), 1..12))
        .prop_map(|(mut doc, ch)| {
            let ids = decorate(&mut doc, &ch);
            (doc, ids)
        })
        .prop_flat_map(|(doc, ids)| {
            (
                Just(doc),
                prop_oneof![2 => hide_sheet(ids.max(2)), 3 => simple_hide_selectors(ids.max(2)).prop_map(|s| vec![Rule { selectors: s, decls: vec![Decl { prop: Prop::DisplayNone, important: false }] }])],
                0u8..3,
                prop::collection::vec(any::<u8>(), 0..6),
                1usize..=100,
                any::<bool>(),
                cssgen::variant(),
            )
        })
        .prop_map(|(mut doc, mut sheet, delivery, inl, width, rich, variant)| {
            // At most one near miss per case, either in the sheet or inline: two declaration blocks that each
            // hold half of the idiom and match the same element would hide it in a browser (height and
            // overflow cascade separately) but not in html2text (the idiom is recognised per block); the
            // property does not say which is right, so such combinations are not generated.
            let mut near = false;
            sheet.retain(|r| {
                if r.decls.iter().any(|d| matches!(d.prop, Prop::NearMiss(_))) {
                    if near {
                        return false;
                    }
                    near = true;
                }
                true
            });
            // inline display:none / zero-height idiom on some elements
            let mut i = 0usize;
            for_attrs_mut(&mut doc.blocks, &mut |_, a| {
                if inl.is_empty() {
                    return;
                }
                let c = inl[i % inl.len()];
                i += 1;
                if c % 9 == 0 {
                    a.style = Some(match c % 4 {
                        0 => "display:none".to_string(),
                        1 => "height:0;overflow:hidden".to_string(),
                        2 => "max-height:0;height:20px;overflow:hidden".to_string(),
                        _ => "overflow:hidden;height:0;max-height:100px".to_string(),
                    });
                } else if c % 9 == 1 {
                    // other spellings of the idiom (hide) and near misses (do not hide)
                    let k = (c / 9) % 8;
                    let k = if near && k >= 3 { k % 3 } else { k };
                    if k >= 3 {
                        near = true;
                    }
                    a.style = Some(match k {
                        0 => "height:0px;overflow:hidden".to_string(),
                        1 => "max-height:0em;overflow-y:hidden".to_string(),
                        2 => "height:0.0pt;overflow:hidden".to_string(),
                        3 => "height:0;overflow:visible".to_string(),
                        4 => "height:20px;overflow:hidden".to_string(),
                        5 => "max-height:0;overflow:auto".to_string(),
                        6 => "overflow:hidden".to_string(),
                        _ => "height:0;overflow-y:scroll".to_string(),
                    });
                }
            });
            let mut styling = Styling::default();
            match delivery {
                0 => styling.user = sheet,
                1 => styling.agent = sheet,
                _ => styling.author = sheet,
            }
            HideCase { doc, styling, width, rich, variant: Variant { junk: vec![], ..variant } }
        })
        .boxed()
}

/// Explicit inputs: regressions and the known finding (a losing display:none still hides).
#[derive(Clone, Debug, Serialize, Deserialize, PartialEq, Eq, Hash)]
pub struct ExplicitHide {
    pub html: String,
    pub user_css: String,
    /// the same document with the hidden elements deleted by hand
    pub expected_html: String,
    pub width: usize,
}

pub fn check_explicit(case: &ExplicitHide, _st: &mut Stats) -> Result<(), String> {
    let mut cfg = CfgSpec::plain();
    cfg.doc_css = true;
    if !case.user_css.is_empty() {
        cfg.user_css = vec![case.user_css.clone()];
    }
    let got = render(&cfg, case.html.as_bytes(), case.width);
    let exp = render(&CfgSpec::plain(), case.expected_html.as_bytes(), case.width);
    if got != exp {
        return Err(format!("rendering with CSS differs from the document with the hidden parts deleted\n html={}\n css={}\n got={:?}\n exp={:?}", case.html, case.user_css, got.as_ok(), exp.as_ok()));
    }
    Ok(())
}

fn explicit_items() -> Vec<ExplicitHide> {
    let e = |h: &str, c: &str, x: &str| ExplicitHide { html: h.into(), user_css: c.into(), expected_html: x.into(), width: 30 };
    vec![
        e("<ol><li class=h>a</li><li>b</li><li>c</li></ol>", ".h{display:none}", "<ol><li>b</li><li>c</li></ol>"),
        e("<p>x <a href=u class=h>l</a> <a href=v>m</a></p>", ".h{display:none}", "<p>x  <a href=v>m</a></p>"),
        e("<table><tr><td>a</td><td id=k>b</td><td>c</td></tr></table>", "#k{height:0;overflow:hidden}", "<table><tr><td>a</td><td>c</td></tr></table>"),
        e("<div style=\"display:none\"><p id=q>a</p></div><p>b</p>", "", "<p>b</p>"),
        // zero lengths with a fractional part or a unit hide (fix b391621); near misses do not
        e("<p>a</p><p id=k>b</p>", "#k{height:0.0pt;overflow:hidden}", "<p>a</p>"),
        e("<p>a</p><p id=k>b</p>", "#k{max-height:0.00em;overflow-y:hidden}", "<p>a</p>"),
        e("<p>a</p><p id=k>b</p>", "#k{height:0.5em;overflow:hidden}", "<p>a</p><p>b</p>"),
        e("<p>a</p><p id=k>b</p>", "#k{height:0;overflow:visible}", "<p>a</p><p>b</p>"),
    ]
}

pub fn property() -> Property {
    let _ = (canonical_css, sheet_to_css, cfg_brief);
    Property {
        id: "C18",
        level: "exploration",
        rule: "grammar documents (lists, quotes, headings, dl, tables incl. nested, links, ids) decorated with classes/ids; hide-only styling: a sheet of <= 3 rules (display:none, height/max-height:0 + overflow:hidden incl. zero lengths with units and overflow-y, or - one rule in five - a near miss of the idiom that must hide nothing: overflow visible/auto/scroll, a non-zero height, one half of the idiom alone; 20% !important) on selectors from C20's grammar or simple class/id/element/nth-child selectors, delivered as user CSS, agent CSS or the document's <style>, plus inline display:none / zero-height styles; width 1..=100; plain (decorated, footnotes on) and rich. Oracle (differential, deletion on the oracle DOM): the hidden set is computed by the reference matcher/cascade; render(d with CSS) must equal render(serialise(oracle DOM minus hidden subtrees, styles stripped)) byte for byte, for rich also the tagged lines (fragment markers, annotations); and with use_doc_css off the document renders as with all <style> elements and style attributes stripped. Non-trivial = a hidden li / cell / row / link / id-bearing element whose parent is visible; distinct by the whole case.",
        assumptions: vec!["the serialiser of the oracle DOM is checked per case by a round trip (cases where re-serialising changes the rendering are discarded and counted)", "sheets contain no competing non-none display declarations (a losing display:none still hides: known finding)"],
        hang_is_violation: false,
        subs: vec![
            EnumSub::new("explicit", false, |_| explicit_items(), check_explicit).boxed(),
            PropSub::new("hide", 30_000, 300_000, hide_case, check_hide).with_validity(|c| c.doc.valid() && styling_valid(&c.styling)).boxed(),
        ],
    }
}
