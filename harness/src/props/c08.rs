//! C08 — link footnotes are numbered consistently with their references.
use super::common::cfg_brief;
use crate::cfg::{render, render_lines, Ann, CfgSpec, Deco, OElem, Rend};
use crate::engine::{EnumSub, PropSub, Property, Stats};
use crate::gen::{self, census, label_of, Block, Doc, Inline, G};
use crate::util::{is_border, short};
use proptest::prelude::*;
use serde::{Deserialize, Serialize};
use serde_json::json;

#[derive(Clone, Debug, Serialize, Deserialize, PartialEq, Eq, Hash)]
pub struct LinkCase {
    pub doc: Doc,
    pub width: usize,
    pub cfg: CfgSpec,
}

/// Rewrite the links of a document for this check: targets become digit/punctuation strings
/// (not unique), links without visible text become *shallow* empty links (the deep-empty form
/// is the known finding KF-C08-deep-empty-link).
pub fn prepare_links(blocks: &mut [Block], shapes: &[u8]) -> usize {
    fn inl(v: &mut Vec<Inline>, n: &mut usize, shapes: &[u8], deep: &mut usize) {
        for i in v.iter_mut() {
            match i {
                Inline::El(_, _, k) => inl(k, n, shapes, deep),
                Inline::A { href, kids, .. } => {
                    if let Some(h) = href {
                        let k = shapes.get(*n % shapes.len().max(1)).copied().unwrap_or(0);
                        let len = h.len();
                        *h = match k % 4 {
                            0 => format!("/{}", len % 7),
                            1 => format!("//{}.{}/", len, k),
                            2 => format!("//{}/{}", k, "0123456789/".repeat(1 + (k as usize % 9))),
                            _ => format!("{}", k % 10),
                        };
                        if !gen::inlines_visible(kids) {
                            *deep += 1;
                            *kids = match k % 8 {
                                // non-ASCII white space only
                                5 => vec![Inline::Raw("&nbsp;".into())],
                                6 => vec![Inline::Raw("&#x3000;".into())],
                                7 => vec![Inline::Raw("&#x2009;&nbsp;".into())],
                                0 => vec![],
                                1 => vec![Inline::Raw(" ".into())],
                                2 => vec![Inline::Br],
                                // children that collapse to a bare fragment marker
                                3 => vec![Inline::Raw("<span id=\"e\"></span>".into())],
                                _ => vec![Inline::Raw("<img id=\"e\" src=\"s\">".into())],
                            };
                        }
                        *n += 1;
                    }
                    inl(kids, n, shapes, deep);
                }
                _ => {}
            }
        }
    }
    let mut n = 0;
    let mut deep = 0;
    gen::for_runs_mut(blocks, &mut |i| inl(i, &mut n, shapes, &mut deep));
    deep
}

/// (per label: link index if the text node is inside a link with href), list of link targets of
/// links that have rendered content, number of distinct containers holding links
struct LinkInfo {
    label_link: Vec<Option<usize>>,
    targets: Vec<String>,
    containers: usize,
}

fn link_info(doc: &Doc) -> LinkInfo {
    struct W {
        label_link: Vec<Option<usize>>,
        targets: Vec<String>,
        containers: std::collections::BTreeSet<usize>,
        next_container: usize,
    }
    fn inl(v: &[Inline], w: &mut W, link: Option<usize>, container: usize) {
        for i in v {
            match i {
                Inline::Text(_) => w.label_link.push(link),
                Inline::Img { alt, .. } => {
                    if alt.is_some() {
                        w.label_link.push(link)
                    }
                }
                Inline::El(_, _, k) => inl(k, w, link, container),
                Inline::A { href, kids, .. } => {
                    let mut l = link;
                    if let Some(h) = href {
                        if gen::inlines_visible(kids) {
                            w.targets.push(h.clone());
                            l = Some(w.targets.len() - 1);
                            w.containers.insert(container);
                        }
                    }
                    inl(kids, w, l, container);
                }
                _ => {}
            }
        }
    }
    fn blk(v: &[Block], w: &mut W) {
        for b in v {
            w.next_container += 1;
            let c = w.next_container;
            match b {
                Block::P(_, i) | Block::Inl(i) | Block::H(_, _, i) => inl(i, w, None, c),
                Block::Div(_, k) | Block::Quote(_, k) | Block::Wrap(_, _, k) => blk(k, w),
                Block::Ul(_, it) | Block::Ol(_, _, it) => it.iter().for_each(|x| blk(&x.kids, w)),
                Block::Dl(_, it) => it.iter().for_each(|x| blk(&x.kids, w)),
                Block::Pre(..) => w.label_link.push(None),
                Block::Table(t) => t.rows.iter().for_each(|r| r.cells.iter().for_each(|c| blk(&c.kids, w))),
            }
        }
    }
    let mut w = W { label_link: vec![], targets: vec![], containers: Default::default(), next_container: 0 };
    blk(&doc.blocks, &mut w);
    LinkInfo { label_link: w.label_link, targets: w.targets, containers: w.containers.len() }
}

/// Split output lines into (body, footnote entries). Err if the trailing block is malformed.
pub fn split_footnotes(lines: &[String], n: usize, width: usize, wrap: bool) -> Result<(Vec<String>, Vec<String>), String> {
    if n == 0 {
        if let Some(l) = lines.iter().find(|l| l.starts_with("[1]: ")) {
            return Err(format!("footnote entry {:?} although no link has content", l));
        }
        return Ok((lines.to_vec(), vec![]));
    }
    let Some(start) = lines.iter().rposition(|l| l.starts_with("[1]: ")) else {
        return Err(format!("no footnote block (no line starts with `[1]: `) although {} links have content", n));
    };
    if lines[..start].iter().any(|l| l.starts_with("[1]: ")) {
        return Err("more than one footnote block".into());
    }
    if let Some(i) = lines[start..].iter().position(|l| l.trim().is_empty()) {
        return Err(format!("blank line inside or after the footnote list (line {} of the list)", i));
    }
    let mut entries: Vec<String> = vec![];
    let mut k = 1;
    for l in &lines[start..] {
        if l.starts_with(&format!("[{}]: ", k)) {
            entries.push(l.clone());
            k += 1;
        } else if let Some(last) = entries.last_mut() {
            if !wrap {
                return Err(format!("footnote continuation line {:?} although link wrapping is off", l));
            }
            last.push_str(l);
        }
    }
    if wrap {
        // every entry must have been cut at the width: all but the last piece exactly `width` wide
        let mut k = 1;
        let mut prev_full = true;
        for l in &lines[start..] {
            let is_start = l.starts_with(&format!("[{}]: ", k));
            if is_start {
                k += 1;
            } else if !prev_full {
                return Err(format!("footnote continuation {:?} follows a piece shorter than the width", l));
            }
            prev_full = crate::util::line_width(l) == width;
        }
    }
    Ok((lines[..start].to_vec(), entries))
}

/// Find the `[k]` marker after position `from` of a whitespace-free character stream, skipping
/// closing decorations and block prefixes. Returns (k, position after the marker).
fn marker_after(s: &[char], from: usize) -> Option<(usize, usize)> {
    let skip = |c: char| matches!(c, ']' | '*' | '`' | '>' | '#' | '\u{336}' | '}' | '{' | '^' | '│' | '\u{301}');
    let mut i = from;
    while i < s.len() && skip(s[i]) {
        i += 1;
    }
    if i >= s.len() || s[i] != '[' {
        return None;
    }
    i += 1;
    let mut k = 0usize;
    let mut digits = 0;
    while i < s.len() {
        let c = s[i];
        if c.is_ascii_digit() {
            k = k * 10 + c as usize - '0' as usize;
            digits += 1;
            i += 1;
        } else if c == '>' || c == '#' {
            i += 1; // a block prefix interleaved by a hard wrap inside the marker
        } else {
            break;
        }
    }
    if digits == 0 || i >= s.len() || s[i] != ']' {
        return None;
    }
    Some((k, i + 1))
}

fn all_markers(s: &[char]) -> Vec<usize> {
    let mut v = vec![];
    let mut i = 0;
    while i < s.len() {
        if s[i] == '[' {
            let mut j = i + 1;
            let mut k = 0usize;
            let mut d = 0;
            while j < s.len() && (s[j].is_ascii_digit() || s[j] == '>' || s[j] == '#') {
                if s[j].is_ascii_digit() {
                    k = k * 10 + s[j] as usize - '0' as usize;
                    d += 1;
                }
                j += 1;
            }
            if d > 0 && j < s.len() && s[j] == ']' {
                v.push(k);
                i = j + 1;
                continue;
            }
        }
        i += 1;
    }
    v
}

pub fn check_links(case: &LinkCase, st: &mut Stats) -> Result<(), String> {
    let (html, nlabels) = case.doc.to_html_n();
    if nlabels > gen::max_labels() {
        st.class("skipped_too_many_text_nodes");
        return Ok(());
    }
    let info = link_info(&case.doc);
    let n = info.targets.len();
    let w = case.width;
    let c = census(&case.doc.blocks);
    let on = case.cfg.footnotes_on();
    st.sample(|| json!({"html": short(&html, 400), "width": w, "cfg": cfg_brief(&case.cfg), "links_with_content": n}));
    let show = |m: String, out: &str| format!("{} (w={}, cfg={})\nhtml={}\nout={:?}", m, w, cfg_brief(&case.cfg), short(&html, 1000), short(out, 800));

    let mut configs = vec![(case.cfg.clone(), "as configured")];
    if c.tables > 0 && !case.cfg.raw {
        let mut raw = case.cfg.clone();
        raw.raw = true;
        configs.push((raw, "raw mode"));
    }
    for (cfg, what) in &configs {
        let r = render(cfg, html.as_bytes(), w);
        if let Some(b) = r.bad() {
            return Err(format!("{}\nhtml={}", b, short(&html, 800)));
        }
        let Rend::Ok(out) = r else {
            st.class("toonarrow");
            continue;
        };
        let lines: Vec<String> = out.lines().map(|l| l.to_string()).collect();
        if !on {
            let stream: Vec<char> = out.chars().filter(|c| !c.is_whitespace() && *c != '\u{336}').collect();
            if !all_markers(&stream).is_empty() {
                return Err(show(format!("[k] reference with footnotes disabled ({})", what), &out));
            }
            if lines.iter().any(|l| l.starts_with("[1]: ")) {
                return Err(show(format!("footnote list with footnotes disabled ({})", what), &out));
            }
            continue;
        }
        let (body, entries) = split_footnotes(&lines, n, w, !cfg.no_link_wrap).map_err(|e| show(format!("{} ({})", e, what), &out))?;
        let exp: Vec<String> = info.targets.iter().enumerate().map(|(i, t)| format!("[{}]: {}", i + 1, t)).collect();
        if entries != exp {
            return Err(show(format!("footnote list differs ({}): got {:?} expected {:?}", what, entries, exp), &out));
        }
        if n > 0 && !body.is_empty() && !body.last().map(|l| l.trim().is_empty()).unwrap_or(true) && body.iter().any(|l| !l.trim().is_empty()) {
            // the footnote list is its own block: separated from the body by a blank line
            return Err(show(format!("footnote list is not separated from the text ({})", what), &out));
        }
        let sequential = c.tables == 0 || cfg.raw;
        if !sequential {
            continue;
        }
        // (i) + (ii) on the document-order stream
        let stream: Vec<char> = body.iter().flat_map(|l| l.chars()).filter(|c| !c.is_whitespace() && !is_border(*c) && *c != '\u{336}' && *c != '\u{301}').collect();
        let mut last_pos: Vec<Option<usize>> = vec![None; n];
        for (p, ch) in stream.iter().enumerate() {
            if let Some(l) = label_of(*ch) {
                if let Some(Some(k)) = info.label_link.get(l) {
                    last_pos[*k] = Some(p);
                }
            }
        }
        let mut found = vec![];
        for (k, lp) in last_pos.iter().enumerate() {
            let Some(lp) = lp else {
                return Err(show(format!("text of link {} not found in the output ({})", k + 1, what), &out));
            };
            match marker_after(&stream, lp + 1) {
                Some((m, _)) if m == k + 1 => found.push(m),
                other => {
                    return Err(show(
                        format!("link {} (target {:?}) is not followed by the reference [{}] but by {:?} ({})", k + 1, info.targets[k], k + 1, other.map(|x| x.0), what),
                        &out,
                    ))
                }
            }
        }
        let mut all = all_markers(&stream);
        all.sort();
        let want: Vec<usize> = (1..=n).collect();
        if all != want {
            return Err(show(format!("references found in the text are {:?}, expected each of 1..={} once ({})", all, n, what), &out));
        }
    }
    // rich: the reference is not part of the link annotation, the link text is
    if on && case.cfg.deco == Deco::Rich && n > 0 {
        if let Rend::Ok(ls) = render_lines(&case.cfg, html.as_bytes(), w) {
            for l in &ls {
                for e in l {
                    if let OElem::Str(s, tags) = e {
                        let linked: Vec<&String> = tags.iter().filter_map(|t| if let Ann::Link(u) = t { Some(u) } else { None }).collect();
                        for ch in s.chars() {
                            if let Some(lab) = label_of(ch) {
                                let exp = info.label_link.get(lab).copied().flatten();
                                match (exp, linked.first()) {
                                    (Some(k), Some(u)) if **u == info.targets[k] => {}
                                    (None, None) => {}
                                    _ => {
                                        return Err(format!(
                                            "rich: character {:?} has link annotation {:?} but belongs to link {:?}\nhtml={}",
                                            ch,
                                            linked,
                                            exp.map(|k| &info.targets[k]),
                                            short(&html, 800)
                                        ))
                                    }
                                }
                            } else if (ch == '[' || ch == ']' || ch.is_ascii_digit()) && !linked.is_empty() && s.contains('[') {
                                return Err(format!("rich: the reference {:?} carries the Link annotation\nhtml={}", s, short(&html, 800)));
                            }
                        }
                    }
                }
            }
        }
    }
    if n >= 3 && info.containers >= 2 {
        st.nontrivial(case);
        st.nt_sample(|| json!({"html": short(&html, 400), "width": w, "links_with_content": n, "containers": info.containers}));
    }
    if c.tables > 0 {
        st.class("with_table");
    }
    st.class(if on { "footnotes_on" } else { "footnotes_off" });
    Ok(())
}

fn link_case() -> BoxedStrategy<LinkCase> {
    let mut g = G::default().depth(2);
    g.pre = false;
    g.max_inl = 4;
    let cfg = (prop_oneof![Just(Deco::Plain), Just(Deco::Trivial), Just(Deco::Rich), Just(Deco::PlainNoDecorate)], prop::bool::weighted(0.8), prop::bool::weighted(0.15), prop::bool::weighted(0.2)).prop_map(
        |(deco, on, nowrap, decorate)| CfgSpec { deco, footnotes: Some(on), no_link_wrap: nowrap, decorate, ..Default::default() },
    );
    (gen::doc(&g), 10usize..=120, cfg, prop::collection::vec(any::<u8>(), 1..8))
        .prop_map(|(mut doc, width, cfg, shapes)| {
            prepare_links(&mut doc.blocks, &shapes);
            LinkCase { doc, width, cfg }
        })
        .boxed()
}

/// Explicit HTML with the expected list (regressions and the known finding).
#[derive(Clone, Debug, Serialize, Deserialize, PartialEq, Eq, Hash)]
pub struct ExplicitLinks {
    pub html: String,
    pub width: usize,
    pub expected_entries: Vec<String>,
}

pub fn check_explicit(case: &ExplicitLinks, st: &mut Stats) -> Result<(), String> {
    if case.expected_entries.len() >= 2 {
        st.nontrivial(case);
    }
    let r = render(&CfgSpec::plain(), case.html.as_bytes(), case.width);
    let Rend::Ok(out) = r else { return Err(format!("not rendered: {:?}", r.kind())) };
    let lines: Vec<String> = out.lines().map(|l| l.to_string()).collect();
    let (body, entries) = split_footnotes(&lines, case.expected_entries.len(), case.width, true).map_err(|e| format!("{}\nhtml={}\nout={:?}", e, case.html, out))?;
    if entries != case.expected_entries {
        return Err(format!("footnote list {:?}, expected {:?}\nhtml={}\nout={:?}", entries, case.expected_entries, case.html, out));
    }
    let stream: Vec<char> = body.iter().flat_map(|l| l.chars()).filter(|c| !c.is_whitespace()).collect();
    let mut m = all_markers(&stream);
    m.sort();
    if m != (1..=case.expected_entries.len()).collect::<Vec<_>>() {
        return Err(format!("references in the text {:?}, expected 1..={}\nhtml={}\nout={:?}", m, case.expected_entries.len(), case.html, out));
    }
    Ok(())
}

fn explicit_items() -> Vec<ExplicitLinks> {
    let e = |h: &str, w: usize, x: &[&str]| ExplicitLinks { html: h.into(), width: w, expected_entries: x.iter().map(|s| s.to_string()).collect() };
    vec![
        e("<p><a href=u1>a</a> <a href=u2></a> <a href=u3>c</a></p><ul><li><a href=u4>d</a></ul>", 40, &["[1]: u1", "[2]: u3", "[3]: u4"]),
        e("<table><tr><td><a href=x>a</a></td><td><a href=y>b</a></td></tr></table><p><a href=x>c</a></p>", 40, &["[1]: x", "[2]: y", "[3]: x"]),
        e("<p><a>no href</a> <a href=\"\"> </a> <a href=z><br></a>t</p>", 20, &[]),
    ]
}

/// Links whose whole content is a block element (a heading, list, quote, table ... inside <a>),
/// enumerated: block kind x position of that link among three x width x outer context.
fn block_link_items() -> Vec<ExplicitLinks> {
    let blocks: &[(&str, &str)] = &[
        ("<h2>", "</h2>"),
        ("<p>", "</p>"),
        ("<div>", "</div>"),
        ("<ul><li>", "</li></ul>"),
        ("<ol><li>", "</li></ol>"),
        ("<blockquote>", "</blockquote>"),
        ("<dl><dd>", "</dd></dl>"),
        ("<dl><dt>", "</dt></dl>"),
        ("<table><tr><td>", "</td></tr></table>"),
        ("<pre>", "</pre>"),
        ("<div><p>", "</p></div>"),
    ];
    let outers: &[(&str, &str)] = &[("", ""), ("<div>", "</div>"), ("<blockquote>", "</blockquote>"), ("<ul><li>", "</li></ul>")];
    let mut v = vec![];
    for (bo, bc) in blocks {
        for pos in 0..3usize {
            for (oo, oc) in outers {
                for width in [12usize, 30, 80] {
                    let mut html = String::from(*oo);
                    let mut exp = vec![];
                    for k in 0..3usize {
                        let href = format!("/{}", k + 1);
                        if k == pos {
                            html.push_str(&format!("<a href=\"{}\">{}word{}{}</a>", href, bo, k, bc));
                        } else {
                            html.push_str(&format!("<p>text <a href=\"{}\">link{}</a> more</p>", href, k));
                        }
                        exp.push(format!("[{}]: {}", k + 1, href));
                    }
                    html.push_str(oc);
                    v.push(ExplicitLinks { html, width, expected_entries: exp });
                }
            }
        }
    }
    v
}

pub fn property() -> Property {
    Property {
        id: "C08",
        level: "exploration",
        rule: "grammar documents (paragraphs, lists, quotes, headings, dl, tables incl. nested) with 0..40 links whose text nodes carry identifying characters, targets made of digits/punctuation (not unique, some longer than the width), plus shallow-empty links (no children, whitespace, <br>, an empty id-bearing span, an id-bearing image without alt text) and <a> without href; width 10..=120; plain / plain_no_decorate / trivial / rich x link_footnotes(true|false) x no_link_wrapping x do_decorate. Oracle: n = links with visible content (from the AST); enabled: the output ends with exactly one block that un-wraps (pieces cut exactly at the width) to `[k]: target_k`, k = 1..n, separated from the text by a blank line; on the document-order stream (table-free documents; raw-mode rendering for documents with tables) the last character of link k is followed (closing markup and block prefixes skipped) by `[k]`, and the references in the text are exactly 1..n once each; rich: link text carries Link(target_k), references do not; disabled: no `[k]`, no list. Sub-check block_links (enumerated): a link whose whole content is one of 11 block constructs, at each position among three links, in 4 outer contexts, 3 widths: list and references as above. Non-trivial = >= 3 links with content in >= 2 containers; distinct by the whole case.",
        assumptions: vec!["bordered tables: list and numbering are checked through the raw-mode rendering of the same document plus the list of the bordered rendering (a reference can be split inside a narrow cell)", "deep-empty links are a known finding and not generated"],
        hang_is_violation: false,
        subs: vec![
            EnumSub::new("explicit", false, |_| explicit_items(), check_explicit).boxed(),
            EnumSub::new("block_links", true, |_| block_link_items(), check_explicit).boxed(),
            PropSub::new("links", 30_000, 300_000, link_case, check_links).with_validity(|c| c.doc.valid() && c.width >= 10).boxed(),
        ],
    }
}
