//! Case types and strategies shared by several properties.
use crate::cfg::{CfgSpec, Deco, DecoStrings};
use crate::gen::{self, Doc, Mutation, G};
use crate::util::short;
use proptest::prelude::*;
use serde::{Deserialize, Serialize};
use serde_json::{json, Value};

/// A grammar document, optionally byte-mutated, with width and configuration.
#[derive(Clone, Debug, Serialize, Deserialize, PartialEq, Eq, Hash)]
pub struct DocCase {
    pub doc: Doc,
    #[serde(default, skip_serializing_if = "Vec::is_empty")]
    pub muts: Vec<Mutation>,
    pub width: usize,
    pub cfg: CfgSpec,
}

impl DocCase {
    pub fn html(&self) -> Vec<u8> {
        let h = self.doc.to_html();
        if self.muts.is_empty() {
            h.into_bytes()
        } else {
            gen::mutate(h.as_bytes(), &self.muts)
        }
    }
    pub fn sample(&self) -> Value {
        json!({"html": short(&String::from_utf8_lossy(&self.html()), 400), "width": self.width, "cfg": cfg_brief(&self.cfg), "mutated": !self.muts.is_empty()})
    }
}

pub fn cfg_brief(c: &CfgSpec) -> Value {
    let mut v = serde_json::to_value(c).unwrap();
    if let Value::Object(m) = &mut v {
        m.retain(|_, x| !(x.is_null() || *x == Value::Bool(false) || x.as_array().map(|a| a.is_empty()).unwrap_or(false)));
    }
    v
}

pub fn deco_std() -> BoxedStrategy<Deco> {
    prop_oneof![
        4 => Just(Deco::Plain),
        2 => Just(Deco::Rich),
        2 => Just(Deco::Trivial),
        1 => Just(Deco::PlainNoDecorate),
    ]
    .boxed()
}

pub fn ascii_deco_strings() -> BoxedStrategy<DecoStrings> {
    let s = || prop_oneof![Just("".to_string()), Just("*".to_string()), Just("_".to_string()), Just("<<".to_string()), Just("=> ".to_string()), Just("-".to_string())];
    let p = || prop_oneof![Just("".to_string()), Just("> ".to_string()), Just(">> ".to_string()), Just("-".to_string()), Just("=> ".to_string()), Just(" ".to_string())];
    (
        (s(), s()),
        (s(), s()),
        (s(), s()),
        (s(), s()),
        (s(), s()),
        (s(), s()),
        (s(), s()),
        (p(), p(), p(), p(), p()),
        prop_oneof![4 => Just(0u8), 2 => Just(1u8), 1 => Just(2u8), 1 => Just(4u8)],
    )
        .prop_map(|(link, em, strong, strike, code, img, sup, (hdr_unit, hdr_tail, quote, ul, ol_tail), ol_style)| DecoStrings {
            link,
            em,
            strong,
            strike,
            code,
            img,
            sup,
            hdr_unit,
            hdr_tail,
            quote,
            ul,
            ol_tail,
            ol_style,
        })
        .boxed()
}

/// Option mixes that keep the width bound (no overflow, links wrappable).
pub fn cfg_bounded() -> BoxedStrategy<CfgSpec> {
    (
        prop_oneof![4 => Just(Deco::Plain), 2 => Just(Deco::Rich), 2 => Just(Deco::Trivial), 1 => Just(Deco::PlainNoDecorate)],
        prop::option::weighted(0.2, 0usize..12),
        prop::option::weighted(0.25, 1usize..60),
        prop::bool::weighted(0.2),
        prop::bool::weighted(0.15),
        prop::bool::weighted(0.15),
        prop::option::weighted(0.4, any::<bool>()),
        prop::option::weighted(0.2, any::<bool>()),
        prop::bool::weighted(0.15),
    )
        .prop_map(|(deco, min_wrap, max_wrap, pad, raw, no_borders, footnotes, strikeout, decorate)| CfgSpec {
            deco,
            min_wrap,
            max_wrap,
            pad,
            raw,
            no_borders,
            footnotes,
            strikeout,
            decorate,
            ..Default::default()
        })
        .boxed()
}

/// Any option mix (C01, C11), without CSS.
pub fn cfg_any() -> BoxedStrategy<CfgSpec> {
    (cfg_bounded(), prop::bool::weighted(0.3), prop::bool::weighted(0.15), prop::option::weighted(0.1, ascii_deco_strings()))
        .prop_map(|(mut c, overflow, no_link_wrap, custom)| {
            c.overflow = overflow;
            c.no_link_wrap = no_link_wrap;
            if let Some(ds) = custom {
                c.deco = Deco::Custom(ds);
            }
            c
        })
        .boxed()
}

pub fn doc_case(g: G, widths: std::ops::RangeInclusive<usize>, cfg: BoxedStrategy<CfgSpec>, mutate: bool) -> BoxedStrategy<DocCase> {
    let muts = if mutate { gen::mutations() } else { Just(vec![]).boxed() };
    (gen::doc(&g), muts, widths, cfg)
        .prop_map(|(doc, muts, width, cfg)| DocCase { doc, muts, width, cfg })
        .boxed()
}
