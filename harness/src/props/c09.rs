//! C09 — rich annotations mirror element nesting exactly.
use super::common::cfg_brief;
use crate::cfg::{oline_text, render, render_lines, Ann, CfgSpec, OElem, Rend};
use crate::engine::{EnumSub, PropSub, Property, Stats};
use crate::gen::{self, for_attrs_mut, label_of, Doc, COMBINING, G};
use crate::odom::{self, Arena};
use crate::util::{is_visible, short};
use proptest::prelude::*;
use serde::{Deserialize, Serialize};
use serde_json::json;
use std::collections::{BTreeSet, HashMap};

#[derive(Clone, Debug, Serialize, Deserialize, PartialEq, Eq, Hash)]
pub struct RichCase {
    pub doc: Doc,
    pub width: usize,
    /// colour choices consumed while decorating elements with style attributes (empty = no CSS)
    pub colours: Vec<u8>,
    /// pad_block_width: the padding must not take annotations of inline elements
    #[serde(default)]
    pub pad: bool,
}

fn parse_hex(s: &str) -> Option<(u8, u8, u8)> {
    let s = s.trim().strip_prefix('#')?;
    if s.len() != 6 {
        return None;
    }
    let v = u32::from_str_radix(s, 16).ok()?;
    Some(((v >> 16) as u8, (v >> 8) as u8, v as u8))
}

/// Colour annotations an element's inline style asks for (the generator only writes
/// `color:#rrggbb` and `background-color:#rrggbb`).
fn style_anns(style: &str) -> Vec<Ann> {
    let mut fg = None;
    let mut bg = None;
    for decl in style.split(';') {
        if let Some((k, v)) = decl.split_once(':') {
            match k.trim() {
                "color" => fg = parse_hex(v),
                "background-color" => bg = parse_hex(v),
                _ => {}
            }
        }
    }
    let mut v = vec![];
    if let Some((r, g, b)) = fg {
        v.push(Ann::Colour(r, g, b));
    }
    if let Some((r, g, b)) = bg {
        v.push(Ann::BgColour(r, g, b));
    }
    v
}

/// Annotations contributed by one element (colours first, then its own annotation).
pub type ColourFn<'a> = &'a dyn Fn(&Arena, usize) -> Vec<Ann>;

/// Colours from the element's own inline style (the only CSS C09 generates).
pub fn inline_style_colours(dom: &Arena, n: usize) -> Vec<Ann> {
    dom.attr(n, "style").map(style_anns).unwrap_or_default()
}

pub fn no_colours(_: &Arena, _: usize) -> Vec<Ann> {
    vec![]
}

fn element_anns(dom: &Arena, n: usize, colours: ColourFn) -> Vec<Ann> {
    let mut v = colours(dom, n);
    match dom.name(n) {
        Some("em" | "i" | "ins" | "dt") => v.push(Ann::Emphasis),
        Some("strong") => v.push(Ann::Strong),
        Some("s" | "del") => v.push(Ann::Strikeout),
        Some("code") => v.push(Ann::Code),
        Some("a") => {
            if let Some(h) = dom.attr(n, "href") {
                v.push(Ann::Link(h.to_string()));
            }
        }
        _ => {}
    }
    v
}

/// label -> (expected annotation vector without Default/Preformat, inside <pre>?)
pub fn expected_vectors(dom: &Arena, colours: ColourFn) -> HashMap<usize, (Vec<Ann>, bool)> {
    let mut m = HashMap::new();
    for (node, text) in dom.text_items() {
        let mut labels: Vec<usize> = text.chars().filter(|c| is_visible(*c)).filter_map(label_of).collect();
        labels.dedup();
        if labels.is_empty() {
            continue;
        }
        let mut chain: Vec<usize> = dom.ancestors(node);
        chain.reverse();
        let mut v = vec![];
        let mut pre = false;
        for a in chain {
            if dom.is_elem(a) {
                v.extend(element_anns(dom, a, colours));
                if dom.name(a) == Some("pre") {
                    pre = true;
                }
            }
        }
        if dom.name(node) == Some("img") {
            // the alt text: the image's own colours, then Image(src)
            v.extend(colours(dom, node));
            v.push(Ann::Image(dom.attr(node, "src").unwrap_or("").to_string()));
        }
        for l in labels {
            m.insert(l, (v.clone(), pre));
        }
    }
    m
}

fn strip(tags: &[Ann]) -> (Vec<Ann>, Vec<bool>) {
    let mut v = vec![];
    let mut pf = vec![];
    for t in tags {
        match t {
            Ann::Default => {}
            Ann::Preformat(b) => pf.push(*b),
            x => v.push(x.clone()),
        }
    }
    (v, pf)
}

pub fn check_html(html: &str, width: usize, css: bool, st: &mut Stats, key: &dyn Fn(&mut Stats, bool)) -> Result<(), String> {
    check_html_pad(html, width, css, false, st, key)
}

pub fn check_html_pad(html: &str, width: usize, css: bool, pad: bool, st: &mut Stats, key: &dyn Fn(&mut Stats, bool)) -> Result<(), String> {
    let mut cfg = CfgSpec::rich();
    cfg.doc_css = css;
    cfg.pad = pad;
    let colours: ColourFn = if css { &inline_style_colours } else { &no_colours };
    check_annotations(html, &cfg, width, colours, st, key)
}

/// Compare the annotation vector of every output piece with the vector expected from the oracle
/// DOM, where `colours` says which Colour/BgColour annotations an element contributes.
pub fn check_annotations(html: &str, cfg: &CfgSpec, width: usize, colours: ColourFn, st: &mut Stats, key: &dyn Fn(&mut Stats, bool)) -> Result<(), String> {
    let cfg = cfg.clone();
    let css = true;
    let _ = css;
    let dom = odom::parse(html.as_bytes());
    // identifying characters are unique only up to the pool size: skip documents with more text
    // nodes than labels (two text items showing the same character)
    {
        let mut seen: HashMap<usize, usize> = HashMap::new();
        for (i, (_, text)) in dom.text_items().iter().enumerate() {
            for l in text.chars().filter_map(label_of) {
                if let Some(prev) = seen.insert(l, i) {
                    if prev != i {
                        st.class("skipped_too_many_text_nodes");
                        return Ok(());
                    }
                }
            }
        }
    }
    let exp = expected_vectors(&dom, colours);
    let r = render_lines(&cfg, html.as_bytes(), width);
    if let Some(b) = r.bad() {
        return Err(format!("{}\nhtml={}", b, short(html, 800)));
    }
    let Rend::Ok(lines) = r else {
        st.class("toonarrow");
        return Ok(());
    };
    // pieces joined == string output
    if let Rend::Ok(s) = render(&cfg, html.as_bytes(), width) {
        let joined: String = lines.iter().map(|l| oline_text(l) + "\n").collect();
        if joined != s {
            return Err(format!("concatenated pieces differ from the string output\nhtml={}", short(html, 800)));
        }
    }
    // the set of vectors a non-text piece may carry: initial segments of expected vectors
    let mut prefixes: BTreeSet<String> = BTreeSet::new();
    prefixes.insert(format!("{:?}", Vec::<Ann>::new()));
    for (v, _) in exp.values() {
        for k in 0..=v.len() {
            prefixes.insert(format!("{:?}", &v[..k]));
        }
    }
    // ... and the vectors padding may carry: those of block-level elements (with all their ancestors)
    let mut block_prefixes: BTreeSet<String> = BTreeSet::new();
    block_prefixes.insert(format!("{:?}", Vec::<Ann>::new()));
    for n in dom.elements() {
        let mut chain: Vec<usize> = dom.ancestors(n);
        chain.reverse();
        chain.push(n);
        let mut v = vec![];
        for a in chain {
            if dom.is_elem(a) {
                v.extend(element_anns(&dom, a, colours));
                prefixes.insert(format!("{:?}", v));
                if matches!(dom.name(a), Some("html" | "body" | "p" | "div" | "ul" | "ol" | "li" | "blockquote" | "dl" | "dt" | "dd" | "pre" | "table" | "thead" | "tbody" | "tfoot" | "tr" | "td" | "th" | "h1" | "h2" | "h3" | "h4" | "h5" | "h6")) {
                    block_prefixes.insert(format!("{:?}", v));
                }
            }
        }
    }
    let mut occurrences: HashMap<usize, usize> = HashMap::new();
    let mut multi = false;
    for (y, l) in lines.iter().enumerate() {
        for (ei, e) in l.iter().enumerate() {
            let OElem::Str(s, tags) = e else { continue };
            let (got, pf) = strip(tags);
            // Line-trailing blanks (padding of a block or a table cell; trailing white space of the text
            // itself is never rendered outside <pre>) belong to the block, not to an inline element.
            if pf.is_empty() && s.ends_with(' ') {
                let next = l[ei + 1..].iter().find_map(|x| if let OElem::Str(t, _) = x { if t.is_empty() { None } else { Some(t.as_str()) } } else { None });
                if next.map_or(true, |t| t.starts_with('\u{2502}')) {
                    st.class("trailing_blanks_checked");
                    if !block_prefixes.contains(&format!("{:?}", got)) {
                        return Err(format!(
                            "blanks at the end of a line / cell ({:?} on line {}) carry annotations {:?} which are not those of a block-level element and its ancestors (w={}, pad={})\nhtml={}",
                            s, y, got, width, cfg.pad, short(html, 900)
                        ));
                    }
                }
            }
            let mut labels: Vec<usize> = s.chars().filter_map(label_of).collect();
            labels.dedup();
            if labels.is_empty() {
                if s.chars().any(|c| c == COMBINING) {
                    continue;
                }
                // prefix, border, padding, markup
                if !prefixes.contains(&format!("{:?}", got)) {
                    return Err(format!(
                        "a piece without document text ({:?} on line {}) carries annotations {:?} which are not an initial segment of any enclosing element chain\nhtml={}",
                        s,
                        y,
                        got,
                        short(html, 900)
                    ));
                }
                continue;
            }
            for lab in labels {
                let Some((want, pre)) = exp.get(&lab) else {
                    return Err(format!("character of unknown text node in piece {:?}\nhtml={}", s, short(html, 600)));
                };
                if &got != want {
                    return Err(format!(
                        "annotations of text {:?} (line {}) are {:?}, expected from the element nesting {:?} (w={})\nhtml={}",
                        short(s, 40),
                        y,
                        got,
                        want,
                        width,
                        short(html, 1000)
                    ));
                }
                if *pre != (pf.len() == 1) {
                    return Err(format!(
                        "text {:?}: {} Preformat annotations, inside <pre>: {}\nhtml={}",
                        short(s, 40),
                        pf.len(),
                        pre,
                        short(html, 800)
                    ));
                }
                *occurrences.entry(lab).or_insert(0) += 1;
                if want.len() >= 2 {
                    multi = true;
                }
            }
        }
    }
    let split = occurrences.values().any(|n| *n >= 2);
    key(st, multi && (split || html.contains("<li") || html.contains("<td") || html.contains("<blockquote")));
    Ok(())
}

pub fn check_rich(case: &RichCase, st: &mut Stats) -> Result<(), String> {
    let (html, nlabels) = case.doc.to_html_n();
    if nlabels > gen::max_labels() {
        st.class("skipped_too_many_text_nodes");
        return Ok(());
    }
    let css = !case.colours.is_empty();
    st.sample(|| json!({"html": short(&html, 400), "width": case.width, "use_doc_css": css}));
    let c2 = case.clone();
    if case.pad {
        st.class("pad_block_width");
    }
    check_html_pad(&html, case.width, css, case.pad, st, &move |st, nt| {
        if nt {
            st.nontrivial(&c2);
        }
        if css {
            st.class("with_colours");
        }
    })
}

/// Put `color` / `background-color` styles on random elements (table, tr, td included; the
/// AST has no attributes on thead/tbody, whose colours are the known finding KF-C09-rowgroup-colour).
pub fn colourise(doc: &mut Doc, choices: &[u8]) -> usize {
    let mut i = 0usize;
    let skipped = 0;
    let mut serial = 0u32;
    for_attrs_mut(&mut doc.blocks, &mut |name, a| {
        if choices.is_empty() {
            return;
        }
        let c = choices[i % choices.len()];
        i += 1;
        if c % 3 != 0 {
            return;
        }
        let _ = name;
        serial += 1;
        let col = |k: u32| format!("#{:06x}", (k * 0x01_03_07 + c as u32 * 0x10_00_01) & 0xffffff);
        a.style = Some(match (c / 3) % 3 {
            0 => format!("color:{}", col(serial)),
            1 => format!("background-color:{}", col(serial + 7)),
            _ => format!("color:{};background-color:{}", col(serial), col(serial + 11)),
        });
    });
    skipped
}

fn rich_case() -> BoxedStrategy<RichCase> {
    // incl. digits-only <sup> (superscript characters; some carry a style of their own, which must
    // end with the element) and non-ASCII spaces
    let g = G::default().depth(2).with_digit_sup();
    (gen::doc(&g), 1usize..=100, prop_oneof![1 => Just(vec![]), 2 => prop::collection::vec(any::<u8>(), 1..10)], prop::bool::weighted(0.3))
        .prop_map(|(mut doc, width, colours, pad)| {
            colourise(&mut doc, &colours);
            RichCase { doc, width, colours, pad }
        })
        .boxed()
}

#[derive(Clone, Debug, Serialize, Deserialize, PartialEq, Eq, Hash)]
pub struct ExplicitRich {
    pub html: String,
    pub width: usize,
    pub css: bool,
}

pub fn check_explicit(case: &ExplicitRich, st: &mut Stats) -> Result<(), String> {
    check_html(&case.html, case.width, case.css, st, &|_, _| {})
}

fn explicit_items() -> Vec<ExplicitRich> {
    let e = |h: &str, w: usize, css: bool| ExplicitRich { html: h.into(), width: w, css };
    vec![
        e("<p>a <em>b <strong>c</strong></em> d</p><ul><li><code>e</code> f</li></ul>", 20, false),
        e("<blockquote><s>g <a href=\"u\">h</a></s></blockquote><pre>i  j</pre>", 6, false),
        e("<p style=\"color:#ff0000\">k <span style=\"background-color:#00ff00\">l</span></p><p>m</p>", 20, true),
        e("<table><tr style=\"color:#010203\"><td>n</td><td style=\"color:#040506\">o</td></tr></table><p>p</p>", 20, true),
        e("<em><p>q</p><ul><li>r</li></ul></em><p>s</p>", 10, false),
        e("<table style=\"color:#ff0000\"><tr><td>t</td></tr></table><p>u</p>", 20, true),
    ]
}

pub fn property() -> Property {
    Property {
        id: "C09",
        level: "exploration",
        rule: "grammar documents with one identifying character per text node under random nestings of em/i/ins/strong/s/del/code/a/img/pre/span/sup/dt/unknown elements inside paragraphs, lists, quotes, headings, dl, table cells (incl. nested tables), optionally with `color` / `background-color` inline styles on random elements and use_doc_css; width 1..=100; rich decorator. Oracle: from the independent oracle DOM the expected annotation vector of a text node is the concatenation over its ancestors, outermost first, of [Colour?, BgColour?, own annotation]; every output piece holding a character of that node must carry exactly that vector (Default ignored; Preformat present exactly inside <pre>, position not asserted); pieces without document text (prefixes, borders, padding) must carry an initial segment of some element chain; pieces joined per line equal the string output. Non-trivial = a text with >= 2 annotations that is split by wrapping or sits in a list item / quote / table cell; distinct by the whole case.",
        assumptions: vec!["element -> annotation table read from the library's documentation and source (em/i/ins/dt Emphasis, strong, s/del Strikeout, code, a[href] Link, img Image on its alt text)", "colours on thead/tbody (ignored) are a known finding and not generated"],
        hang_is_violation: false,
        subs: vec![
            EnumSub::new("explicit", false, |_| explicit_items(), check_explicit).boxed(),
            PropSub::new("nesting", 30_000, 300_000, rich_case, check_rich).with_validity(|c| c.doc.valid()).boxed(),
        ],
    }
}
