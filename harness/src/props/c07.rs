//! C07 — lists, quotes, headings prefix every line; ordered items count from start.
use super::common::cfg_brief;
use crate::cfg::{render, CfgSpec, Deco, Rend};
use crate::engine::{PropSub, Property, Stats};
use crate::gen::{self, blocks_to_html, census, Block, Inline, G};
use crate::util::short;
use proptest::prelude::*;
use serde::{Deserialize, Serialize};
use serde_json::json;

#[derive(Clone, Debug, Serialize, Deserialize, PartialEq, Eq, Hash)]
pub enum Wrap {
    Ul,
    Ol(Option<i64>),
    Quote,
    /// `<dl>` of dd items
    Dd,
    H(u8),
}

#[derive(Clone, Debug, Serialize, Deserialize, PartialEq, Eq, Hash)]
pub struct WrapCase {
    pub wrap: Wrap,
    /// items (lists, dd) or the single content (quote); for headings: one inline run per item[0]
    pub items: Vec<Vec<Block>>,
    pub width: usize,
    pub rich: bool,
    pub decorate: bool,
    /// also render the wrapper after a finished paragraph: it must come out the same
    #[serde(default)]
    pub lead: bool,
}

fn cfg_of(case_rich: bool, decorate: bool) -> CfgSpec {
    let mut c = if case_rich { CfgSpec::rich() } else { CfgSpec::plain_nd() };
    c.decorate = decorate;
    c.footnotes = Some(false);
    c
}

fn lines_of(r: &Rend<String>) -> Option<Vec<String>> {
    r.as_ok().map(|s| s.lines().map(|l| l.to_string()).collect())
}

fn heading_inlines(b: &[Block]) -> Option<&Vec<Inline>> {
    match b {
        [Block::Inl(i)] => Some(i),
        _ => None,
    }
}

pub fn check_wrapper(case: &WrapCase, st: &mut Stats) -> Result<(), String> {
    if case.items.is_empty() {
        return Err("harness: no items".into());
    }
    let cfg = cfg_of(case.rich, case.decorate);
    let w = case.width;
    // outer document and the per-item prefixes computed by the oracle
    let n = case.items.len();
    let (outer, prefixes): (String, Vec<(String, String)>) = match &case.wrap {
        Wrap::Ul => (
            format!("<ul>{}</ul>", case.items.iter().map(|i| format!("<li>{}</li>", blocks_to_html_shared(i))).collect::<String>()),
            vec![("* ".to_string(), "  ".to_string()); n],
        ),
        Wrap::Ol(start) => {
            let s = start.unwrap_or(1);
            let nums: Vec<i64> = (0..n as i64).map(|k| s.checked_add(k).expect("bounded starts")).collect();
            let width = nums.iter().map(|k| format!("{}. ", k).len()).max().unwrap();
            (
                format!(
                    "<ol{}>{}</ol>",
                    start.map(|s| format!(" start=\"{}\"", s)).unwrap_or_default(),
                    case.items.iter().map(|i| format!("<li>{}</li>", blocks_to_html_shared(i))).collect::<String>()
                ),
                nums.iter().map(|k| (format!("{:<w$}", format!("{}. ", k), w = width), " ".repeat(width))).collect(),
            )
        }
        Wrap::Quote => (format!("<blockquote>{}</blockquote>", blocks_to_html_shared(&case.items[0])), vec![("> ".to_string(), "> ".to_string())]),
        Wrap::Dd => (
            format!("<dl>{}</dl>", case.items.iter().map(|i| format!("<dd>{}</dd>", blocks_to_html_shared(i))).collect::<String>()),
            vec![("  ".to_string(), "  ".to_string()); n],
        ),
        Wrap::H(l) => {
            let Some(_) = heading_inlines(&case.items[0]) else { return Err("harness: heading content must be one inline run".into()) };
            let p = format!("{} ", "#".repeat(*l as usize));
            (format!("<h{}>{}</h{}>", l, blocks_to_html_shared(&case.items[0]), l), vec![(p.clone(), p)])
        }
    };
    let items: &[Vec<Block>] = match case.wrap {
        Wrap::Quote | Wrap::H(_) => &case.items[..1],
        _ => &case.items[..],
    };
    st.sample(|| json!({"html": short(&outer, 300), "width": w, "cfg": cfg_brief(&cfg)}));
    let ro = render(&cfg, outer.as_bytes(), w);
    if let Some(b) = ro.bad() {
        return Err(format!("{}\nhtml={}", b, short(&outer, 800)));
    }
    let Some(got) = lines_of(&ro) else {
        st.class("outer_toonarrow");
        return Ok(());
    };
    let pw = prefixes[0].0.len();
    if w <= pw {
        // nothing fits beside the prefix: only content that renders nothing can succeed here
        if got.iter().any(|l| l.chars().any(|c| crate::gen::label_of(c).is_some())) {
            return Err(format!("text rendered although the width {} leaves nothing beside the prefix of width {}\nhtml={}\nout={:?}", w, pw, short(&outer, 600), got));
        }
        st.class("no_room_beside_prefix");
        return Ok(());
    }
    let mut exp: Vec<String> = vec![];
    for (item, (p1, pn)) in items.iter().zip(prefixes.iter()) {
        let inner = blocks_to_html_shared(item);
        let ri = render(&cfg, inner.as_bytes(), w - pw);
        if let Some(b) = ri.bad() {
            return Err(format!("{}\nhtml={}", b, short(&inner, 800)));
        }
        let Some(il) = lines_of(&ri) else {
            return Err(format!(
                "the wrapped document renders at width {} but its content alone is TooNarrow at width {}\n outer={}\n inner={}",
                w,
                w - pw,
                short(&outer, 600),
                short(&inner, 600)
            ));
        };
        for (k, l) in il.iter().enumerate() {
            exp.push(format!("{}{}", if k == 0 { p1 } else { pn }, l));
        }
    }
    if got != exp {
        let first = got.iter().zip(exp.iter()).position(|(a, b)| a != b).unwrap_or(got.len().min(exp.len()));
        return Err(format!(
            "prefixed rendering is not `prefix + content rendered at width - {}` (w={}); first difference at line {}\n html={}\n got={:?}\n exp={:?}",
            pw,
            w,
            first,
            short(&outer, 900),
            got.iter().skip(first.saturating_sub(1)).take(4).collect::<Vec<_>>(),
            exp.iter().skip(first.saturating_sub(1)).take(4).collect::<Vec<_>>()
        ));
    }
    if case.lead && solid(&got) {
        // what precedes a block does not change how the block itself is rendered
        let lead_html = format!("<p>zz</p>{}", outer);
        let rl = render(&cfg, lead_html.as_bytes(), w);
        if let Some(b) = rl.bad() {
            return Err(format!("{}\nhtml={}", b, short(&lead_html, 800)));
        }
        if let Some(ll) = lines_of(&rl) {
            st.class("after_a_paragraph");
            let rest: Vec<String> = ll.iter().skip(1).skip_while(|l| l.trim().is_empty()).cloned().collect();
            let blanks = ll.len().saturating_sub(1 + rest.len());
            if ll.first().map(|l| l.trim_end()) != Some("zz") || blanks > 2 || rest != got {
                return Err(format!(
                    "the block renders differently after a paragraph (w={})\n html={}\n alone={:?}\n after ={:?}",
                    w,
                    short(&lead_html, 900),
                    got.iter().take(8).collect::<Vec<_>>(),
                    ll.iter().take(10).collect::<Vec<_>>()
                ));
            }
        }
    }
    let depth = items.iter().map(|i| census(i).max_depth).max().unwrap_or(0) + 1;
    let crossing = match &case.wrap {
        Wrap::Ol(s) => {
            let s = s.unwrap_or(1);
            let e = s + n as i64 - 1;
            format!("{}", s).len() != format!("{}", e).len()
        }
        _ => false,
    };
    if crossing {
        st.class("marker_width_crossing");
    }
    if depth >= 2 || crossing {
        st.nontrivial(case);
        st.nt_sample(|| json!({"html": short(&outer, 300), "width": w, "out": got.iter().take(8).collect::<Vec<_>>()}));
    }
    Ok(())
}

/// Serialise blocks with labels starting from 0 (every sub-document is labelled on its own;
/// characters need not match between outer and inner renderings, only the line structure, so the
/// inner HTML must be byte-identical to the corresponding part of the outer HTML).
fn blocks_to_html_shared(b: &[Block]) -> String {
    blocks_to_html(b)
}

#[derive(Clone, Debug, Serialize, Deserialize, PartialEq, Eq, Hash)]
pub struct SiblingCase {
    pub a: Block,
    pub b: Block,
    pub width: usize,
    pub rich: bool,
}

fn solid(lines: &[String]) -> bool {
    !lines.is_empty() && !lines[0].trim().is_empty() && !lines[lines.len() - 1].trim().is_empty()
}

pub fn check_siblings(case: &SiblingCase, st: &mut Stats) -> Result<(), String> {
    let cfg = cfg_of(case.rich, false);
    let w = case.width;
    let ha = blocks_to_html(std::slice::from_ref(&case.a));
    let hb = blocks_to_html(std::slice::from_ref(&case.b));
    let hab = format!("{}{}", ha, hb);
    let rab = render(&cfg, hab.as_bytes(), w);
    let ra = render(&cfg, ha.as_bytes(), w);
    let rb = render(&cfg, hb.as_bytes(), w);
    for r in [&rab, &ra, &rb] {
        if let Some(b) = r.bad() {
            return Err(b);
        }
    }
    st.sample(|| json!({"a": short(&ha, 150), "b": short(&hb, 150), "width": w}));
    let (Some(la), Some(lb)) = (lines_of(&ra), lines_of(&rb)) else {
        st.class("part_toonarrow");
        return Ok(());
    };
    if !solid(&la) || !solid(&lb) {
        st.class("not_solid(skipped)");
        return Ok(());
    }
    let Some(lab) = lines_of(&rab) else {
        return Err(format!("both blocks render at width {} but their concatenation is TooNarrow\n a={}\n b={}", w, short(&ha, 400), short(&hb, 400)));
    };
    // A's lines, some blank lines (0..=3), B's lines
    let ok = lab.len() >= la.len() + lb.len()
        && lab.len() <= la.len() + lb.len() + 3
        && lab[..la.len()] == la[..]
        && lab[lab.len() - lb.len()..] == lb[..]
        && lab[la.len()..lab.len() - lb.len()].iter().all(|l| l.trim().is_empty());
    if !ok {
        return Err(format!(
            "two sibling blocks do not render as their renderings one after the other (w={})\n a={}\n b={}\n ab={:?}\n a ={:?}\n b ={:?}",
            w,
            short(&ha, 400),
            short(&hb, 400),
            lab,
            la,
            lb
        ));
    }
    let blanks = lab.len() - la.len() - lb.len();
    st.class(&format!("{}_blank_lines_between", blanks));
    st.nontrivial(case);
    Ok(())
}

fn content_g() -> G {
    let mut g = G::default().depth(1);
    g.tables = true;
    g.max_blocks = 2;
    g
}

fn wrap_case() -> BoxedStrategy<WrapCase> {
    let g = content_g();
    let wrap = prop_oneof![
        3 => Just(Wrap::Ul),
        4 => gen::ol_start().prop_map(Wrap::Ol),
        2 => prop_oneof![Just(Some(9i64)), Just(Some(98)), Just(Some(999)), Just(Some(-2)), Just(Some(-11)), Just(Some(95))].prop_map(Wrap::Ol),
        2 => Just(Wrap::Quote),
        1 => Just(Wrap::Dd),
        2 => (1u8..=6).prop_map(Wrap::H),
    ];
    // one item in ten is empty (`<li></li>`): it prints nothing but still takes its number
    let item = |d: u32| prop_oneof![9 => gen::blocks(&g, d), 1 => Just(vec![])];
    let items = prop_oneof![
        3 => prop::collection::vec(item(1), 1..4),
        2 => prop::collection::vec(item(0), 4..=15),
        1 => prop::collection::vec(item(2), 1..3),
    ];
    let heading_inl = gen::inlines(&g, 1);
    (wrap, items, heading_inl, 4usize..=100, any::<bool>(), prop::bool::weighted(0.3), prop::bool::weighted(0.4))
        .prop_map(|(wrap, mut items, hinl, width, rich, decorate, lead)| {
            if let Wrap::H(_) = wrap {
                items = vec![vec![Block::Inl(hinl)]];
            }
            WrapCase { wrap, items, width, rich, decorate, lead }
        })
        .boxed()
}

fn sibling_case() -> BoxedStrategy<SiblingCase> {
    let mut g = content_g();
    g.bare_inline = false;
    let one = gen::blocks(&g, 1).prop_map(|mut v| v.remove(0));
    (one.clone(), one, 4usize..=100, any::<bool>()).prop_map(|(a, b, width, rich)| SiblingCase { a, b, width, rich }).boxed()
}

fn valid_wrap(c: &WrapCase) -> bool {
    !c.items.is_empty()
        && c.items.iter().all(|i| gen::valid_blocks(i))
        && match c.wrap {
            Wrap::H(l) => (1..=6).contains(&l) && heading_inlines(&c.items[0]).is_some(),
            Wrap::Ol(Some(s)) => s.abs() < 1_000_000,
            _ => true,
        }
}

pub fn property() -> Property {
    Property {
        id: "C07",
        level: "exploration",
        rule: "a wrapper W in {ul, ol(start in {absent, -100..100, 9, 95, 98, 999, -2, -11}), blockquote, dl/dd, h1..h6} around 1..15 items whose content is grammar blocks (paragraphs, nested lists/quotes/headings/dl, tables, pre) to depth 2, width 4..=100, plain_no_decorate or rich, do_decorate on/off, footnotes off; oracle (differential on sub-documents through the public API): lines(render(W(X), w)) == oracle-computed prefix (marker on the first line of an item, indentation of the same width after; `> `/`#..# ` on every line; numbers start, start+1, ... padded to the widest marker) + lines(render(X_i, w - prefix)), item after item; whenever the wrapped document renders, each content renders at the narrower width. Siblings: for blocks whose own rendering starts and ends with a non-blank line, render(A B) == render(A), 0..3 blank lines, render(B). Non-trivial = nesting depth >= 2 or a marker-width crossing; distinct by the whole case.",
        assumptions: vec!["the sibling law is stated only for solid blocks (blank-line bookkeeping of degenerate blocks is outside the property)", "by induction on nesting the single-wrapper law defines every nested rendering from leaf paragraphs (C04)"],
        hang_is_violation: false,
        subs: vec![
            PropSub::new("wrapper", 30_000, 300_000, wrap_case, check_wrapper).with_validity(valid_wrap).boxed(),
            PropSub::new("siblings", 15_000, 150_000, sibling_case, check_siblings).with_validity(|c| gen::valid_blocks(std::slice::from_ref(&c.a)) && gen::valid_blocks(std::slice::from_ref(&c.b))).boxed(),
        ],
    }
}
