//! C20 — selectors match exactly the elements CSS says they match.
use super::c09::check_annotations;
use super::csscommon::*;
use crate::cssgen::{self, Comb, Complex, Compound, Nth, Part, Styling, Variant};
use crate::engine::{Ctx, EnumSub, PropSub, Property, Stats};
use crate::gen::{Attrs, Block, Doc, Inline, Item, Txt};
use crate::odom;
use crate::util::short;
use proptest::prelude::*;
use serde::{Deserialize, Serialize};
use serde_json::json;

#[derive(Clone, Copy, Debug, Serialize, Deserialize, PartialEq, Eq, Hash)]
pub enum Delivery {
    User,
    Agent,
    Doc,
}

#[derive(Clone, Debug, Serialize, Deserialize, PartialEq, Eq, Hash)]
pub struct SelCase {
    pub doc: Doc,
    pub selectors: Vec<Complex>,
    pub delivery: Delivery,
    pub width: usize,
    pub variant: Variant,
}

pub fn check_selector(case: &SelCase, st: &mut Stats) -> Result<(), String> {
    let sheet = single_rule_sheet(case.selectors.clone(), 0x0a0b0c);
    let mut styling = Styling::default();
    match case.delivery {
        Delivery::User => styling.user = sheet,
        Delivery::Agent => styling.agent = sheet,
        Delivery::Doc => styling.author = sheet,
    }
    let sc = StyledCase { doc: case.doc.clone(), styling, width: case.width, use_doc_css: true, variant: case.variant.clone() };
    let html = sc.html();
    let cfg = sc.cfg();
    let sel_text: Vec<String> = case.selectors.iter().map(|s| s.to_css(case.variant.nth_style)).collect();
    st.sample(|| json!({"selector": sel_text, "delivery": format!("{:?}", case.delivery), "html": short(&html, 300), "width": case.width}));
    // non-triviality: the match set is neither empty nor everything
    let dom = odom::parse(html.as_bytes());
    let els: Vec<usize> = dom.elements().collect();
    let matched = els.iter().filter(|n| case.selectors.iter().any(|s| cssgen::matches_complex(&dom, **n, s))).count();
    let structured = case.selectors.iter().any(|s| s.steps.len() > 1 || s.steps.iter().any(|(_, c)| c.parts.iter().any(|p| matches!(p, Part::Nth(_)))));
    let colours = reference_colours(&sc.styling, true);
    check_annotations(&html, &cfg, case.width, &colours, st, &|_, _| {}).map_err(|e| format!("selector {:?} ({:?}): {}", sel_text, case.delivery, e))?;
    if matched > 0 {
        st.class("some_match");
    }
    if matched > 0 && matched < els.len() && structured {
        st.nontrivial(case);
        st.nt_sample(|| json!({"selector": sel_text, "matched": matched, "elements": els.len(), "html": short(&html, 300)}));
    }
    Ok(())
}

/// Derive a selector from an actual element of the document (so that it matches something):
/// `choices` decide which of the element's features each compound mentions and which ancestors
/// and combinators are used.
fn selector_from_doc(doc: &Doc, target: u16, choices: &[u8]) -> Option<Complex> {
    let mut d = doc.clone();
    d.doctype = true;
    let html = d.to_html();
    let dom = odom::parse(html.as_bytes());
    let els: Vec<usize> = dom.elements().filter(|n| !matches!(dom.name(*n), Some("html" | "head" | "body" | "style"))).collect();
    if els.is_empty() {
        return None;
    }
    let mut k = 0usize;
    let mut ch = || {
        let c = choices[k % choices.len()];
        k += 1;
        c
    };
    let compound_of = |n: usize, c: u8| -> Compound {
        let mut parts = vec![];
        let name = dom.local_any(n).unwrap_or("div").to_string();
        if c & 1 != 0 {
            if let Some(cl) = dom.attr(n, "class").and_then(|c| c.split_whitespace().next()) {
                parts.push(Part::Class(cl.to_string()));
            }
        }
        if c & 2 != 0 {
            if let Some(id) = dom.attr(n, "id") {
                parts.push(Part::Id(id.to_string()));
            }
        }
        if c & 4 != 0 {
            if let Some(p) = dom.parent(n) {
                let sibs: Vec<usize> = dom.children(p).iter().copied().filter(|x| dom.is_elem(*x)).collect();
                if let Some(pos) = sibs.iter().position(|x| *x == n) {
                    let idx = pos as i32 + 1;
                    parts.push(Part::Nth(match (c >> 3) % 4 {
                        0 => Nth::B(idx),
                        1 => if idx % 2 == 1 { Nth::Odd } else { Nth::Even },
                        2 => Nth::AnB(1, idx - 3),
                        _ => Nth::AnB(-1, idx + 1),
                    }));
                }
            }
        }
        let elem = match (c >> 5) % 3 {
            0 => Some(name),
            1 => None,
            _ => Some("*".to_string()),
        };
        let mut comp = Compound { elem, parts };
        if comp.elem.is_none() && comp.parts.is_empty() {
            comp.elem = Some("*".into());
        }
        comp
    };
    let mut n = els[(target as usize * els.len()) >> 16];
    let mut steps_rev: Vec<(Comb, Compound)> = vec![];
    let depth = 1 + (ch() % 4) as usize;
    let mut comb_for_prev = Comb::Desc;
    for i in 0..depth {
        let c = ch();
        steps_rev.push((comb_for_prev, compound_of(n, c)));
        if i + 1 == depth {
            break;
        }
        // move to an ancestor
        let anc: Vec<usize> = dom.ancestors(n).into_iter().filter(|a| dom.is_elem(*a)).collect();
        if anc.is_empty() {
            break;
        }
        let pick = ch() as usize % anc.len();
        // the combinator written before the current (right-hand) compound
        let comb = if pick == 0 && ch() % 2 == 0 { Comb::Child } else { Comb::Desc };
        let last = steps_rev.len() - 1;
        steps_rev[last].0 = comb;
        n = anc[if comb == Comb::Child { 0 } else { pick }];
        comb_for_prev = Comb::Desc;
    }
    steps_rev.reverse();
    Some(Complex { steps: steps_rev })
}

fn sel_case() -> BoxedStrategy<SelCase> {
    decorated_doc(css_doc_g())
        .prop_flat_map(|(doc, ids)| {
            (
                Just(doc),
                prop::collection::vec(cssgen::complex(ids.max(2)), 1..=3),
                prop::collection::vec((any::<u16>(), prop::collection::vec(any::<u8>(), 4..12)), 0..=2),
                prop_oneof![Just(Delivery::User), Just(Delivery::Agent), Just(Delivery::Doc)],
                1usize..=100,
                cssgen::variant(),
            )
        })
        .prop_map(|(doc, random_sels, derived, delivery, width, variant)| {
            // selectors derived from the document's own elements (they match something), or random ones
            let mut selectors: Vec<Complex> = derived.iter().filter_map(|(t, ch)| selector_from_doc(&doc, *t, ch)).collect();
            if selectors.is_empty() {
                selectors = random_sels;
            } else if random_sels.len() > 2 {
                selectors.push(random_sels[0].clone());
            }
            SelCase { doc, selectors, delivery, width, variant: Variant { junk: vec![], ..variant } }
        })
        .boxed()
}

/// Exhaustive: every (a, b) in -5..=5 in every spelling, on sibling lists of length 0..=8.
fn nth_items(_ctx: &Ctx) -> Vec<SelCase> {
    let mut v = vec![];
    let mut nths: Vec<Nth> = vec![Nth::Odd, Nth::Even];
    for a in -5..=5 {
        nths.push(Nth::An(a));
        nths.push(Nth::B(a));
        for b in -5..=5 {
            nths.push(Nth::AnB(a, b));
        }
    }
    for len in 0..=8usize {
        let items: Vec<Item> = (0..len)
            .map(|_| Item { attrs: Attrs::none(), kids: vec![Block::Inl(vec![Inline::Text(Txt::simple(1))])] })
            .collect();
        let mut blocks = vec![Block::P(Attrs::none(), vec![Inline::Text(Txt::simple(2))])];
        if len > 0 {
            blocks.push(Block::Ul(Attrs::none(), items));
        }
        let doc = Doc::of(blocks);
        for n in &nths {
            for style in 0..4u8 {
                let sel = Complex { steps: vec![(Comb::Desc, Compound { elem: Some("li".into()), parts: vec![Part::Nth(n.clone())] })] };
                v.push(SelCase { doc: doc.clone(), selectors: vec![sel], delivery: Delivery::User, width: 20, variant: Variant { nth_style: style, layout: 1, ..Default::default() } });
            }
        }
    }
    v
}

pub fn property() -> Property {
    Property {
        id: "C20",
        level: "exploration",
        rule: "table-free grammar documents (<!DOCTYPE html>) decorated with classes {a,b,c,Hd} and unique ids; selector lists of <= 3 complex selectors of <= 4 compounds (element name in either case | * | none, followed by up to 2 of .class / #id / :nth-child(odd|even|an+b|an|b with a,b in -5..=5, in 4 spellings incl. whitespace around the sign) joined by descendant / child combinators), delivered as user CSS, agent CSS or the document's <style>; exhaustive: li:nth-child(A) for every (a,b) in -5..=5, an, b, odd, even x 4 spellings x sibling lists of length 0..=8. Oracle: an independent right-to-left matcher with backtracking over the oracle DOM gives the match set; in rich output every text piece must carry exactly one Colour(#0a0b0c) per matching ancestor (full annotation-vector comparison as in C09). Non-trivial = match set neither empty nor everything, selector has a combinator or :nth-child; distinct by the whole case.",
        assumptions: vec!["HTML no-quirks matching: element names case-insensitive, class and id case-sensitive", "documents are table-free (row-group colours are a known finding of C09)"],
        hang_is_violation: false,
        subs: vec![
            EnumSub::new("nth_exhaustive", true, nth_items, check_selector).boxed(),
            PropSub::new("random", 30_000, 300_000, sel_case, check_selector).with_validity(|c| c.doc.valid() && !c.selectors.is_empty() && c.selectors.iter().all(complex_valid)).boxed(),
        ],
    }
}
