//! C11 — width errors; the overflow option always succeeds and is otherwise a no-op.
use super::common::*;
use crate::cfg::{render, CfgSpec, Deco, Rend};
use super::fuzzsub::FuzzSub;
use crate::engine::{PropSub, Property, Stats};
use crate::gen::{census, Block, G};
use crate::util::{line_width, short};

/// Widths of the block prefixes of a decorator: (ul, quote, dd, heading(level), ol(number)).
pub fn prefix_widths(deco: &Deco) -> Option<(usize, usize, usize, Box<dyn Fn(usize) -> usize>, Box<dyn Fn(i64) -> usize>)> {
    match deco {
        Deco::Plain | Deco::PlainNoDecorate | Deco::Rich => Some((
            2,
            2,
            2,
            Box::new(|l| l + 1),
            Box::new(|n| format!("{}. ", n).len()),
        )),
        Deco::Trivial => Some((0, 0, 2, Box::new(|_| 0), Box::new(|_| 0))),
        Deco::Custom(_) => None,
    }
}

/// Largest total prefix width over nested block chains (table-free documents).
pub fn max_prefix(v: &[Block], deco: &Deco) -> usize {
    let (ul, quote, dd, h, ol) = prefix_widths(deco).expect("standard decorator");
    fn go(v: &[Block], ul: usize, quote: usize, dd: usize, h: &dyn Fn(usize) -> usize, ol: &dyn Fn(i64) -> usize) -> usize {
        v.iter()
            .map(|b| match b {
                Block::Div(_, x) | Block::Wrap(_, _, x) => go(x, ul, quote, dd, h, ol),
                Block::Quote(_, x) => quote + go(x, ul, quote, dd, h, ol),
                Block::Ul(_, i) => ul + i.iter().map(|x| go(&x.kids, ul, quote, dd, h, ol)).max().unwrap_or(0),
                Block::Ol(_, st, i) => {
                    let s = st.unwrap_or(1);
                    let e = s.saturating_add(i.len() as i64 - 1);
                    let pw = ol(s).max(ol(e));
                    pw + i.iter().map(|x| go(&x.kids, ul, quote, dd, h, ol)).max().unwrap_or(0)
                }
                Block::Dl(_, i) => i
                    .iter()
                    .map(|x| if x.dt { go(&x.kids, ul, quote, dd, h, ol) } else { dd + go(&x.kids, ul, quote, dd, h, ol) })
                    .max()
                    .unwrap_or(0),
                Block::H(l, _, _) => h(*l as usize),
                Block::Table(t) => t
                    .rows
                    .iter()
                    .flat_map(|r| r.cells.iter())
                    .map(|c| go(&c.kids, ul, quote, dd, h, ol))
                    .max()
                    .unwrap_or(0),
                _ => 0,
            })
            .max()
            .unwrap_or(0)
    }
    go(v, ul, quote, dd, &*h, &*ol)
}

pub fn check_relations(case: &DocCase, st: &mut Stats) -> Result<(), String> {
    let html = case.html();
    let w = case.width;
    let mut base = case.cfg.clone();
    base.overflow = false;
    let mut over = case.cfg.clone();
    over.overflow = true;
    st.sample(|| case.sample());
    // width 0
    for c in [&base, &over] {
        match render(c, &html, 0) {
            Rend::TooNarrow => {}
            other => return Err(format!("width 0 did not give TooNarrow: {:?} (overflow={})", other.kind(), c.overflow)),
        }
    }
    if w == 0 {
        st.class("width0");
        return Ok(());
    }
    let rb = render(&base, &html, w);
    let ro = render(&over, &html, w);
    if let Some(b) = rb.bad() {
        return Err(format!("without overflow: {}", b));
    }
    let so = match &ro {
        Rend::Ok(s) => s,
        other => {
            return Err(format!(
                "with allow_width_overflow rendering must succeed at width {} but gave {:?} {}\nhtml={}",
                w,
                other.kind(),
                other.bad().unwrap_or_default(),
                short(&String::from_utf8_lossy(&html), 600)
            ))
        }
    };
    st.class(if rb.is_ok() { "base_ok" } else { "base_toonarrow" });
    if let Rend::Ok(sb) = &rb {
        if sb != so {
            return Err(format!(
                "allow_width_overflow changed the output of a rendering that already succeeded (w={})\n without={:?}\n with   ={:?}\nhtml={}",
                w,
                short(sb, 400),
                short(so, 400),
                short(&String::from_utf8_lossy(&html), 600)
            ));
        }
    }
    let overflowed = so.lines().any(|l| line_width(l) > w);
    if overflowed {
        st.class("overflowed");
    }
    if rb.is_narrow() || overflowed {
        st.nontrivial(case);
        st.nt_sample(|| case.sample());
    }
    Ok(())
}

pub fn check_bound(case: &DocCase, st: &mut Stats) -> Result<(), String> {
    let html = case.html();
    let w = case.width;
    if w == 0 {
        return Ok(());
    }
    let mut over = case.cfg.clone();
    over.overflow = true;
    over.no_link_wrap = false;
    if census(&case.doc.blocks).tables > 0 || !case.muts.is_empty() {
        return Err("harness: bound sub-check needs table-free grammar documents".into());
    }
    st.sample(|| case.sample());
    let p = max_prefix(&case.doc.blocks, &over.deco);
    let minw = over.min_wrap.unwrap_or(3).max(5);
    let bound = w.max(p + minw);
    match render(&over, &html, w) {
        Rend::Ok(s) => {
            let mut over_w = false;
            for l in s.lines() {
                let lw = line_width(l);
                if lw > bound {
                    return Err(format!(
                        "overflow bound exceeded: line width {} > max(w={}, P={} + {}) = {}: {:?}\nhtml={}",
                        lw,
                        w,
                        p,
                        minw,
                        bound,
                        l,
                        short(&String::from_utf8_lossy(&html), 800)
                    ));
                }
                if lw > w {
                    over_w = true;
                }
            }
            if over_w {
                st.class("overflowed");
                st.nontrivial(case);
                st.nt_sample(|| case.sample());
            }
            Ok(())
        }
        other => Err(format!("with allow_width_overflow rendering must succeed: {:?} {}", other.kind(), other.bad().unwrap_or_default())),
    }
}

fn cfg_std_any() -> proptest::strategy::BoxedStrategy<CfgSpec> {
    use proptest::prelude::*;
    cfg_any()
        .prop_map(|mut c| {
            if let Deco::Custom(_) = c.deco {
                c.deco = Deco::Plain;
            }
            c
        })
        .boxed()
}

/// Enumerated: (nearly) empty content inside prefixed blocks at the narrowest widths - the places
/// where a block is laid out at width zero.
#[derive(Clone, Debug, serde::Serialize, serde::Deserialize, PartialEq, Eq, Hash)]
pub struct TinyCase {
    pub html: String,
    pub width: usize,
    pub deco: u8,
}

fn tiny_items() -> Vec<TinyCase> {
    let contents: &[&str] = &[
        "", " ", "a", "<p></p>", "<p>a</p>", "<br>", "<hr>", "<img src=\"x\">", "<pre></pre>", "<pre> </pre>", "<span></span>",
        "<table></table>", "<table><tr></tr></table>", "<table><tr><td></td></tr></table>", "<table><tr><td><span></span></td></tr></table>",
        "<table><tr><td> </td></tr></table>", "<table><tr><td></td><td></td></tr></table>", "<table><tr><td>a</td></tr></table>",
        "<ul></ul>", "<ul><li></li></ul>", "<ol><li></li></ol>", "<dl><dd></dd></dl>", "<blockquote></blockquote>", "<h1></h1>",
        "<a href=\"u\"></a>", "<sup></sup>", "\u{4e00}",
    ];
    let outers: &[(&str, &str)] = &[
        ("", ""),
        ("<ul><li>", "</li></ul>"),
        ("<ol><li>", "</li></ol>"),
        ("<ol start=\"99\"><li>", "</li></ol>"),
        ("<blockquote>", "</blockquote>"),
        ("<dl><dd>", "</dd></dl>"),
        ("<dl><dt>", "</dt></dl>"),
        ("<h1>", "</h1>"),
        ("<h3>", "</h3>"),
        ("<ul><li><blockquote>", "</blockquote></li></ul>"),
        ("<table><tr><td><ul><li>", "</li></ul></td></tr></table>"),
        ("<table><tr><td>", "</td><td>b</td></tr></table>"),
        ("<div>", "</div>"),
    ];
    let mut v = vec![];
    for c in contents {
        for (o, e) in outers {
            for width in 0..=5usize {
                for deco in 0..3u8 {
                    v.push(TinyCase { html: format!("{}{}{}", o, c, e), width, deco });
                }
            }
        }
    }
    v
}

pub fn check_tiny(case: &TinyCase, st: &mut Stats) -> Result<(), String> {
    let base = match case.deco % 3 {
        0 => CfgSpec::plain(),
        1 => CfgSpec::rich(),
        _ => CfgSpec::trivial(),
    };
    let mut over = base.clone();
    over.overflow = true;
    let w = case.width;
    let r = render(&base, case.html.as_bytes(), w);
    let ro = render(&over, case.html.as_bytes(), w);
    for x in [&r, &ro] {
        if let Some(b) = x.bad() {
            return Err(format!("{} (w={})\nhtml={}", b, w, case.html));
        }
    }
    if w == 0 {
        if !r.is_narrow() || !ro.is_narrow() {
            return Err(format!("width 0 does not give TooNarrow: {:?} / with overflow {:?}\nhtml={}", r.kind(), ro.kind(), case.html));
        }
        return Ok(());
    }
    if !ro.is_ok() {
        return Err(format!("allow_width_overflow still {:?} at width {}\nhtml={}", ro.kind(), w, case.html));
    }
    if r.is_ok() && r != ro {
        return Err(format!("allow_width_overflow changed a successful rendering (w={})\n without={:?}\n with   ={:?}\nhtml={}", w, r.as_ok(), ro.as_ok(), case.html));
    }
    st.class(r.kind());
    if !r.is_ok() {
        st.nontrivial(case);
    }
    Ok(())
}

pub fn property() -> Property {
    let g = G::default().with_digit_sup().with_pre_inline();
    let g2 = G::default().with_digit_sup().with_pre_inline();
    let g3 = G::default().no_tables().depth(3);
    Property {
        id: "C11",
        level: "exploration",
        rule: "grammar and byte-mutated documents x width 0..=60 x option mixes; oracle: (1) width 0 => TooNarrow, (2) with allow_width_overflow every width >= 1 renders Ok, (3) Ok without overflow => identical output with overflow, (4) table-free grammar documents with overflow: every line <= max(w, P + max(min_wrap_width,5)) with P = largest total prefix width of a nested block chain computed from the AST. Non-trivial = the non-overflow render was TooNarrow or the overflow output has a line wider than w; distinct by the whole case.",
        assumptions: vec!["prefix widths of the standard decorators (ul/quote/dd 2, heading n+1, ol widest marker)", "width measured as min(per-char sum, string width)"],
        hang_is_violation: false,
        subs: vec![
            crate::engine::EnumSub::new("tiny", true, |_| tiny_items(), check_tiny).boxed(),
            PropSub::new("relations", 24_000, 240_000, move || doc_case(g.clone(), 0..=60, cfg_any(), false), check_relations).with_validity(|c| c.doc.valid()).boxed(),
            PropSub::new("relations_mutated", 12_000, 120_000, move || doc_case(g2.clone(), 0..=60, cfg_any(), true), check_relations).with_validity(|c| c.doc.valid()).boxed(),
            PropSub::new("bound", 24_000, 240_000, move || doc_case(g3.clone(), 1..=40, cfg_std_any(), false), check_bound).with_validity(|c| c.doc.valid()).boxed(),
            FuzzSub { name: "fuzz_render", target: "fuzz_render", props: &["C11"], seconds: 120 }.boxed(),
        ],
    }
}
