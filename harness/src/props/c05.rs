//! C05 — table borders form a consistent box drawing.
use super::regtable::*;
use crate::cfg::{render, CfgSpec, Rend};
use crate::engine::{Ctx, EnumSub, PropSub, Property, Stats, Tier};
use crate::util::short;
use serde_json::json;

pub fn check_box(case: &RegCase, st: &mut Stats) -> Result<(), String> {
    check_box_inner(case, st, true)
}

/// Same laws without excluding the known-finding class (regressions, KF replay).
pub fn check_box_strict(case: &RegCase, st: &mut Stats) -> Result<(), String> {
    check_box_inner(case, st, false)
}

fn check_box_inner(case: &RegCase, st: &mut Stats, exclude_known: bool) -> Result<(), String> {
    let t = &case.table;
    if !t.is_regular() {
        return Err("harness: table is not regular".into());
    }
    let known = t.in_known_class();
    if known && exclude_known {
        st.exclude("KF-C05-ragged(span over a column without a non-empty span-1 cell)");
    }
    let html = t.doc().to_html();
    let w = case.width;
    st.sample(|| json!({"html": short(&html, 300), "width": w, "options": case.opts.brief()}));
    if !case.opts.is_default() {
        st.class("with_layout_options(pad/max_wrap/min_wrap/rich)");
    }
    let r = render(&case.opts.cfg(), html.as_bytes(), w);
    if let Some(b) = r.bad() {
        return Err(format!("{}\nhtml={}", b, html));
    }
    let Rend::Ok(out) = r else {
        st.class("toonarrow");
        return Ok(());
    };
    let show = |m: String| format!("{} (w={}, options={})\nhtml={}\n{}", m, w, case.opts.brief(), short(&html, 1200), short(&out, 1500));
    // the local junction law holds for every table, nested or not, known class or not
    let grid: Vec<Vec<char>> = out.lines().map(grid_line).collect();
    let junctions = junction_law(&grid).map_err(&show)?;
    if known && exclude_known {
        return Ok(());
    }
    let a = analyse(&out, w).map_err(&show)?;
    let nontrivial_shape = t.cols >= 2 && (t.has_span() || t.has_nested());
    match a.kind {
        LayoutKind::Empty => st.class("empty"),
        LayoutKind::SideBySide => {
            let sbs = side_by_side_laws(t, &a, w);
            // at tiny widths a stacked table can have all lines equally wide: accept either law set
            let ambiguous = a.table_width == w && a.grid[0].iter().all(|c| *c == '─');
            match sbs {
                Ok(()) => {
                    st.class(if t.has_nested() { "side_by_side_nested" } else { "side_by_side_flat" });
                }
                Err(e1) => {
                    if ambiguous {
                        stacked_laws(t, &a, w).map_err(|e2| show(format!("neither side-by-side ({}) nor stacked ({}) laws hold", e1, e2)))?;
                        st.class("stacked_equal_widths");
                    } else {
                        return Err(show(e1));
                    }
                }
            }
            if nontrivial_shape {
                st.nontrivial(case);
                st.nt_sample(|| json!({"html": short(&html, 300), "width": w, "out": short(&out, 400), "junctions": junctions}));
            }
        }
        LayoutKind::Stacked => {
            st.class(if t.has_nested() { "stacked_nested" } else { "stacked_flat" });
            stacked_laws(t, &a, w).map_err(&show)?;
            if nontrivial_shape {
                st.nontrivial(case);
            }
        }
    }
    Ok(())
}

fn side_by_side_laws(t: &RTable, a: &Analysis, w: usize) -> Result<(), String> {
    if a.table_width > w {
        return Err(format!("table wider than the width: {} > {}", a.table_width, w));
    }
    let last = a.grid.len() - 1;
    if a.full_rules.first() != Some(&0) || a.full_rules.last() != Some(&last) {
        return Err("first and last lines are not horizontal rules".into());
    }
    if !t.has_nested() {
        // rule / row alternation: one band per row that has content
        let nonempty_rows = t.rows.iter().filter(|r| r.iter().any(|c| !c.kind.renders_nothing())).count();
        if a.bands.len() != nonempty_rows || a.full_rules.len() != nonempty_rows + 1 {
            return Err(format!("{} row bands and {} rules for {} rows with content", a.bands.len(), a.full_rules.len(), nonempty_rows));
        }
        // bars at the same positions on every line of a row
        for b in &a.bands {
            let bars = band_bars(a, *b);
            for y in b.0..=b.1 {
                for x in 0..a.grid[y].len() {
                    if a.grid[y][x] == '│' && !bars.contains(&x) {
                        return Err(format!("vertical bar at line {} column {} is not present on every line of its row", y, x));
                    }
                }
            }
        }
    }
    Ok(())
}

fn stacked_laws(t: &RTable, a: &Analysis, w: usize) -> Result<(), String> {
    let last = a.grid.len() - 1;
    if a.grid[0].len() != w || !a.grid[0].iter().all(|c| *c == '─') {
        return Err("stacked table does not start with a full-width rule".into());
    }
    for (y, g) in a.grid.iter().enumerate() {
        let all_slash = !g.is_empty() && g.iter().all(|c| *c == '/');
        if all_slash && g.len() != w {
            return Err(format!("stacked separator line {} is {} wide, not {}", y, g.len(), w));
        }
    }
    if a.grid[last].len() != w || !a.grid[last].iter().all(|c| *c == '─') {
        return Err("stacked table does not end with a full-width rule".into());
    }
    if !t.has_nested() {
        if let Some((y, _)) = a.grid.iter().enumerate().find(|(_, g)| g.iter().any(|c| matches!(c, '│' | '┬' | '┴' | '┼'))) {
            return Err(format!("bar or junction on line {} of a stacked flat table", y));
        }
        for (y, g) in a.grid.iter().enumerate() {
            if !g.is_empty() && g.iter().all(|c| *c == '─') && g.len() != w {
                return Err(format!("stacked rule line {} is {} wide, not {}", y, g.len(), w));
            }
        }
    }
    Ok(())
}

fn exhaustive_items(ctx: &Ctx) -> Vec<RegCase> {
    let (r, c, wmax) = if ctx.tier == Tier::Quick { (2, 3, 30) } else { (3, 3, 30) };
    let mut v = vec![];
    for t in exhaustive_tables(r, c) {
        for w in 1..=wmax {
            v.push(RegCase { table: t.clone(), width: w, opts: Default::default() });
        }
    }
    v
}

fn regressions(_ctx: &Ctx) -> Vec<RegCase> {
    let s = |span| RCell { span, kind: CellKind::Short, th: false };
    let l = |span| RCell { span, kind: CellKind::Long(vec![3, 3, 3]), th: false };
    vec![
        RegCase { table: RTable { cols: 3, rows: vec![vec![s(1), s(1), s(1)], vec![l(2), s(1)], vec![s(1), l(2)]], head: 0 }, width: 12, opts: Default::default() },
        RegCase { table: RTable { cols: 2, rows: vec![vec![l(1), s(1)], vec![l(2)]], head: 1 }, width: 3, opts: Default::default() },
    ]
}

pub fn property() -> Property {
    Property {
        id: "C05",
        level: "exploration",
        rule: "regular tables (1..5 rows x 1..6 columns, every row a random tiling of the columns into colspans, cells empty / one char / long text / multi-paragraph / wide chars / nested regular table / paragraph+nested table+paragraph, optional thead/tbody, th cells) x width 1..=100, plain decorator with borders; bounded-exhaustive: all tables up to 2x3 (quick) / 3x3 (thorough) over {empty, short, long} and every tiling x widths 1..=30. Oracle on the character-cell grid (wide characters occupy two cells): local junction law at every rule glyph and bar of every table incl. nested ones (glyph says up <=> bar or down-glyph above; down <=> bar or up-glyph below; every bar continued above and below); side-by-side: equal line widths <= w, first/last lines are rules, one band per row with content, bars at identical positions on every line of a band; stacked: separators and closing rule exactly w wide, flat tables without bars/junctions. Non-trivial = >= 2 columns and a colspan or nested table; distinct by (table, width).",
        assumptions: vec!["which layout applies is read off the output (equal line widths => side-by-side; first line a full-width rule => stacked)", "shapes in the known-finding class (a span over a column without a non-empty span-1 cell) are checked against the junction law only"],
        hang_is_violation: false,
        subs: vec![
            EnumSub::new("strict_regressions", false, regressions, check_box_strict).boxed(),
            EnumSub::new("exhaustive", true, exhaustive_items, check_box).boxed(),
            PropSub::new("random", 40_000, 400_000, reg_case, check_box).with_validity(|c| c.table.is_regular()).boxed(),
        ],
    }
}
