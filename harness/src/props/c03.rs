//! C03 — document text is preserved: nothing lost, duplicated, reordered or invented.
use super::common::*;
use crate::cfg::{render, CfgSpec, Deco, Rend};
use super::fuzzsub::FuzzSub;
use crate::engine::{EnumSub, PropSub, Property, Stats};
use crate::gen::{self, census, label_of, Block, Doc, Inline, COMBINING, G};
use crate::odom::{self, Arena};
use crate::tablegeo;
use crate::util::{is_border, is_visible, short};
use proptest::prelude::*;

/// Replace every link target by one made of digits and punctuation only, so that footnote
/// lines never contain characters of the text pool.
pub fn sanitize_hrefs(blocks: &mut [Block]) {
    fn inl(v: &mut [Inline], n: &mut usize) {
        for i in v {
            match i {
                Inline::El(_, _, k) => inl(k, n),
                Inline::A { href, kids, .. } => {
                    if let Some(h) = href {
                        let len = h.len().max(1);
                        let mut s = format!("//{}.{}/", *n, len);
                        while s.len() < len {
                            s.push_str("0/");
                        }
                        *h = s;
                        *n += 1;
                    }
                    inl(kids, n);
                }
                _ => {}
            }
        }
    }
    let mut n = 0;
    gen::for_runs_mut(blocks, &mut |i| inl(i, &mut n));
}

fn normalise(c: char) -> Option<char> {
    match c {
        '\u{336}' => None,
        '⁰' => Some('0'),
        '¹' => Some('1'),
        '²' => Some('2'),
        '³' => Some('3'),
        '⁴' => Some('4'),
        '⁵' => Some('5'),
        '⁶' => Some('6'),
        '⁷' => Some('7'),
        '⁸' => Some('8'),
        '⁹' => Some('9'),
        c => Some(c),
    }
}

/// V(d): visible characters of the oracle DOM's flow text, normalised.
pub fn v_of_dom(dom: &Arena) -> Vec<char> {
    dom.text_items().iter().flat_map(|(_, t)| t.chars().collect::<Vec<_>>()).filter(|c| is_visible(*c)).filter_map(normalise).collect()
}

fn allowed_markup(cfg: &CfgSpec) -> &'static str {
    match cfg.deco {
        Deco::Trivial => {
            if cfg.footnotes_on() {
                "[]:./#-0123456789"
            } else {
                ""
            }
        }
        _ => "[]*#>.-^{}`:/0123456789",
    }
}

fn is_allowed_markup(cfg: &CfgSpec, ch: char) -> bool {
    allowed_markup(cfg).contains(ch) || (cfg.decorate && (ch == '*' || ch == '`'))
}

/// label -> region id (innermost table cell, or 0 for text outside every table)
fn label_regions(doc: &Doc) -> Vec<usize> {
    struct W {
        regions: Vec<usize>,
        next_region: usize,
    }
    fn inl(v: &[Inline], w: &mut W, region: usize) {
        for i in v {
            match i {
                Inline::Text(_) => w.regions.push(region),
                Inline::El(_, _, k) => inl(k, w, region),
                Inline::A { kids, .. } => inl(kids, w, region),
                Inline::Img { alt, .. } => {
                    if alt.is_some() {
                        w.regions.push(region)
                    }
                }
                _ => {}
            }
        }
    }
    fn blk(v: &[Block], w: &mut W, region: usize) {
        for b in v {
            match b {
                Block::P(_, i) | Block::Inl(i) | Block::H(_, _, i) => inl(i, w, region),
                Block::Div(_, k) | Block::Quote(_, k) | Block::Wrap(_, _, k) => blk(k, w, region),
                Block::Ul(_, it) | Block::Ol(_, _, it) => it.iter().for_each(|x| blk(&x.kids, w, region)),
                Block::Dl(_, it) => it.iter().for_each(|x| blk(&x.kids, w, region)),
                Block::Pre(..) => w.regions.push(region),
                Block::Table(t) => {
                    for r in &t.rows {
                        for c in &r.cells {
                            w.next_region += 1;
                            let id = w.next_region;
                            blk(&c.kids, w, id);
                        }
                    }
                }
            }
        }
    }
    let mut w = W { regions: vec![], next_region: 0 };
    blk(&doc.blocks, &mut w, 0);
    w.regions
}

pub fn check_grammar(case: &DocCase, st: &mut Stats) -> Result<(), String> {
    if !case.muts.is_empty() {
        return Err("harness: grammar sub-check takes unmutated documents".into());
    }
    let (html, nlabels) = case.doc.to_html_n();
    if nlabels > gen::max_labels() {
        st.class("skipped_too_many_text_nodes");
        return Ok(());
    }
    let c = census(&case.doc.blocks);
    let raw = case.cfg.raw;
    if c.tables > 0 && !raw {
        if tablegeo::any_table(&case.doc.blocks, &|t| tablegeo::geometry_of_ast(t).has_starved_risk()) {
            st.exclude("KF-C03-starved-cell");
            return Ok(());
        }
    }
    let dom = odom::parse(html.as_bytes());
    let v = v_of_dom(&dom);
    let w = case.width;
    st.sample(|| case.sample());
    let r = render(&case.cfg, html.as_bytes(), w);
    if let Some(b) = r.bad() {
        return Err(format!("{}\nhtml={}", b, short(&html, 800)));
    }
    let Rend::Ok(out) = r else {
        st.class("toonarrow");
        return Ok(());
    };
    let mut s: Vec<char> = vec![];
    for ch in out.chars().filter(|c| is_visible(*c)) {
        let Some(ch) = normalise(ch) else { continue };
        if label_of(ch).is_some() || ch == COMBINING {
            s.push(ch);
        } else if is_border(ch) || (ch == '/' && !is_allowed_markup(&case.cfg, ch)) {
            if case.cfg.raw || case.cfg.no_borders || c.tables == 0 {
                return Err(format!("table border character {:?} in output although borders are off / there is no table\nhtml={}\nout={:?}", ch, short(&html, 600), short(&out, 400)));
            }
        } else if !is_allowed_markup(&case.cfg, ch) {
            return Err(format!("invented character {:?} (neither document text nor the decorator's markup)\nhtml={}\nout={:?}", ch, short(&html, 600), short(&out, 400)));
        }
    }
    let sequence = c.tables == 0 || raw;
    if sequence {
        if s != v {
            return Err(format!(
                "text stream differs from the document's (w={}, {})\n expected={:?}\n got     ={:?}\nhtml={}\nout={:?}",
                w,
                if raw { "raw mode" } else { "table-free" },
                short(&v.iter().collect::<String>(), 300),
                short(&s.iter().collect::<String>(), 300),
                short(&html, 800),
                short(&out, 500)
            ));
        }
    } else {
        let mut a = s.clone();
        let mut b = v.clone();
        a.sort();
        b.sort();
        if a != b {
            let lost: String = diff_multiset(&b, &a);
            let extra: String = diff_multiset(&a, &b);
            return Err(format!("text lost or duplicated in a table (w={}): lost={:?} extra={:?}\nhtml={}\nout={:?}", w, lost, extra, short(&html, 900), short(&out, 600)));
        }
        // order within each region (table cell / outside tables)
        let regions = label_regions(&case.doc);
        let nreg = regions.iter().copied().max().unwrap_or(0) + 1;
        let mut got: Vec<Vec<char>> = vec![vec![]; nreg];
        let mut exp: Vec<Vec<char>> = vec![vec![]; nreg];
        #[allow(unused_assignments)]
        let mut last_reg = 0usize;
        for (list, dst) in [(&s, &mut got), (&v, &mut exp)] {
            for ch in list.iter() {
                if *ch == COMBINING {
                    // a mark belongs to whatever precedes it on the line, which across side-by-side
                    // cells need not be its own cell: marks are compared in the multiset only
                    continue;
                }
                let reg = label_of(*ch).and_then(|l| regions.get(l).copied()).unwrap_or(0);
                last_reg = reg;
                dst[reg].push(*ch);
            }
        }
        for r in 0..nreg {
            if got[r] != exp[r] {
                return Err(format!(
                    "text reordered within {} (w={})\n expected={:?}\n got     ={:?}\nhtml={}\nout={:?}",
                    if r == 0 { "the text outside tables".to_string() } else { format!("table cell #{}", r) },
                    w,
                    exp[r].iter().collect::<String>(),
                    got[r].iter().collect::<String>(),
                    short(&html, 900),
                    short(&out, 600)
                ));
            }
        }
    }
    let hard = out.lines().count() > 0 && c.text_nodes >= 3 && (c.tables > 0 || c.max_depth > 0);
    if hard {
        st.nontrivial(case);
        st.nt_sample(|| case.sample());
    }
    if c.tables > 0 {
        st.class(if raw { "table_raw" } else { "table" });
    }
    Ok(())
}

fn diff_multiset(a: &[char], b: &[char]) -> String {
    // elements of sorted a not matched in sorted b
    let mut out = String::new();
    let (mut i, mut j) = (0, 0);
    while i < a.len() {
        if j >= b.len() || a[i] < b[j] {
            out.push(a[i]);
            i += 1;
        } else if a[i] == b[j] {
            i += 1;
            j += 1;
        } else {
            j += 1;
        }
    }
    out
}

/// Input classes of known findings, stated on the oracle DOM (mutated documents).
pub fn kf_class_dom(dom: &Arena, raw: bool) -> Option<&'static str> {
    for n in dom.elements() {
        match dom.name(n) {
            Some("caption") => {
                if dom.has_visible_text(n) {
                    return Some("KF-C03-caption");
                }
            }
            Some("ol") => {
                if dom.children(n).iter().any(|&c| dom.name(c) != Some("li") && dom.has_visible_text(c)) {
                    return Some("KF-C03-ol-dl-stray-child");
                }
            }
            Some("dl") => {
                if dom.children(n).iter().any(|&c| !matches!(dom.name(c), Some("dt" | "dd")) && dom.has_visible_text(c)) {
                    return Some("KF-C03-ol-dl-stray-child");
                }
            }
            Some("table") if !raw => {
                if tablegeo::geometry_of_dom(dom, n).has_starved_risk() {
                    return Some("KF-C03-starved-cell");
                }
            }
            _ => {}
        }
    }
    None
}

/// Explicit input (regressions, known findings): no known-finding class is excluded.
#[derive(Clone, Debug, serde::Serialize, serde::Deserialize, PartialEq, Eq, Hash)]
pub struct ExplicitCase {
    pub html: String,
    pub width: usize,
    pub cfg: CfgSpec,
}

pub fn check_explicit(case: &ExplicitCase, st: &mut Stats) -> Result<(), String> {
    let dc = DocCase { doc: Doc::default(), muts: vec![], width: case.width, cfg: case.cfg.clone() };
    check_bytes(&dc, case.html.as_bytes().to_vec(), st, false)
}

fn explicit_regressions() -> Vec<ExplicitCase> {
    let t = |h: &str, w: usize| ExplicitCase { html: h.into(), width: w, cfg: CfgSpec::trivial() };
    vec![
        t("<table><thead><tr><td>a</td></tr></thead><tbody><tr><td>b</td></tr></tbody><tfoot><tr><td>c</td></tr></tfoot></table>", 20),
        t("<table><tr><td></td><td><p>a</p></td></tr></table>", 1),
        t("<p>x<sup>12</sup> <s>gone</s></p><ul><li>a<li>b</ul>", 10),
        t("<table><tr><td>ccc<td>d<tr><td colspan=2>eeeeeeeeee</table>", 3),
        ExplicitCase { html: "<table><tr><td></td><td><p>a</p></td></tr></table>".into(), width: 1, cfg: CfgSpec { deco: Deco::Trivial, min_wrap: Some(0), ..Default::default() } },
    ]
}

pub fn check_mutated(case: &DocCase, st: &mut Stats) -> Result<(), String> {
    check_bytes(case, case.html(), st, true)
}

pub fn check_bytes(case: &DocCase, html: Vec<u8>, st: &mut Stats, exclude_known: bool) -> Result<(), String> {
    if case.cfg.deco != Deco::Trivial || case.cfg.footnotes_on() {
        return Err("harness: this sub-check uses the trivial decorator without footnotes".into());
    }
    let dom = odom::parse(&html);
    if exclude_known {
        if let Some(k) = kf_class_dom(&dom, case.cfg.raw) {
            st.exclude(k);
            return Ok(());
        }
    }
    let v = v_of_dom(&dom);
    if v.iter().any(|c| is_border(*c) || *c == '/') {
        st.class("skipped_text_contains_border_glyphs");
        return Ok(());
    }
    let w = case.width;
    st.sample(|| serde_json::json!({"html": short(&String::from_utf8_lossy(&html), 400), "width": w, "cfg": cfg_brief(&case.cfg)}));
    let r = render(&case.cfg, &html, w);
    if let Some(b) = r.bad() {
        return Err(format!("{}\nhtml={}", b, short(&String::from_utf8_lossy(&html), 800)));
    }
    let Rend::Ok(out) = r else {
        st.class("toonarrow");
        return Ok(());
    };
    let has_table = dom.elements().any(|n| dom.name(n) == Some("table"));
    let borders = has_table && !case.cfg.raw && !case.cfg.no_borders;
    let s: Vec<char> = out
        .chars()
        .filter(|c| is_visible(*c))
        .filter_map(normalise)
        .filter(|c| !(borders && (is_border(*c) || *c == '/')))
        .collect();
    if !has_table || case.cfg.raw {
        if s != v {
            return Err(format!(
                "trivial decorator: text stream differs from the document's (w={})\n expected={:?}\n got     ={:?}\nhtml={:?}\nout={:?}",
                w,
                short(&v.iter().collect::<String>(), 300),
                short(&s.iter().collect::<String>(), 300),
                short(&String::from_utf8_lossy(&html), 800),
                short(&out, 500)
            ));
        }
    } else {
        // a cell holding nothing but zero-width characters has size 0 and is legitimately skipped
        // like an empty cell, so zero-width characters are not counted when a table is present
        let mut a: Vec<char> = s.iter().copied().filter(|c| crate::util::cw(*c) > 0).collect();
        let mut b: Vec<char> = v.iter().copied().filter(|c| crate::util::cw(*c) > 0).collect();
        a.sort();
        b.sort();
        if a != b {
            return Err(format!(
                "trivial decorator: text lost or duplicated in a table (w={}): lost={:?} extra={:?}\nhtml={:?}\nout={:?}",
                w,
                diff_multiset(&b, &a),
                diff_multiset(&a, &b),
                short(&String::from_utf8_lossy(&html), 900),
                short(&out, 600)
            ));
        }
    }
    if v.len() >= 3 {
        st.nontrivial(case);
    }
    if has_table {
        st.class("table");
    }
    Ok(())
}

fn grammar_case(g: G) -> BoxedStrategy<DocCase> {
    (gen::doc(&g), prop_oneof![4 => 1usize..=200, 1 => 1usize..=6], cfg_bounded(), prop::bool::weighted(0.2))
        .prop_map(|(mut doc, width, mut cfg, overflow)| {
            sanitize_hrefs(&mut doc.blocks);
            // "forall option mixes that still yield Ok": with overflow allowed everything renders
            cfg.overflow = overflow;
            DocCase { doc, muts: vec![], width, cfg }
        })
        .boxed()
}

/// Regular tables (colspans that tile the grid, empty and blank cells, nested tables) rendered in
/// raw mode or without borders: there the whole document keeps document order.
fn raw_table_case() -> BoxedStrategy<DocCase> {
    (super::regtable::rtable(1, 5, 5), 1usize..=120, deco_std(), prop::bool::weighted(0.7), prop::bool::weighted(0.2))
        .prop_map(|(t, width, deco, raw, overflow)| {
            let mut cfg = CfgSpec::of(deco);
            if raw {
                cfg.raw = true;
            } else {
                cfg.no_borders = true;
            }
            cfg.overflow = overflow;
            DocCase { doc: t.doc(), muts: vec![], width, cfg }
        })
        .boxed()
}

fn mutated_case(g: G) -> BoxedStrategy<DocCase> {
    (gen::doc(&g), gen::mutations(), 1usize..=200, cfg_bounded())
        .prop_map(|(doc, muts, width, mut cfg)| {
            cfg.deco = Deco::Trivial;
            cfg.footnotes = None;
            cfg.decorate = false;
            DocCase { doc, muts, width, cfg }
        })
        .boxed()
}

pub fn property() -> Property {
    // ids and anchor names on random elements: markers must never cost text
    let g = G::default().depth(3).with_ids();
    let g2 = G::default().with_ids();
    Property {
        id: "C03",
        level: "exploration",
        rule: "grammar documents with one identifying character per text node (narrow, wide, combining), link targets made of digits/punctuation, x width 1..=200 x {trivial, plain, rich} x bounded option mixes; oracle: V(d) = visible characters of the independent oracle DOM; output characters that are pool characters must equal V(d) as a sequence (table-free documents, raw mode) or as a multiset plus in order within every table cell and outside tables; every other visible output character must belong to the decorator's markup alphabet, border glyphs only with bordered tables. Byte-mutated documents: trivial decorator, all visible output characters (borders removed) against V(d). Non-trivial = >= 3 text nodes and a table or nested block; distinct by the whole case.",
        assumptions: vec!["html5ever is trusted (the oracle DOM uses the same parser with the harness's own TreeSink)", "whitespace and control characters are outside the claim", "U+0336 and superscript digits are normalised on both sides"],
        hang_is_violation: false,
        subs: vec![
            EnumSub::new("explicit", false, |_| explicit_regressions(), check_explicit).boxed(),
            PropSub::new("grammar", 48_000, 480_000, move || grammar_case(g.clone()), check_grammar).with_validity(|c| c.doc.valid()).boxed(),
            PropSub::new("raw_tables", 16_000, 160_000, raw_table_case, check_grammar).with_validity(|c| c.doc.valid()).boxed(),
            PropSub::new("mutated", 24_000, 240_000, move || mutated_case(g2.clone()), check_mutated).with_validity(|c| c.doc.valid()).boxed(),
            FuzzSub { name: "fuzz_render", target: "fuzz_render", props: &["C03"], seconds: 120 }.boxed(),
            FuzzSub { name: "fuzz_struct", target: "fuzz_struct", props: &["C03"], seconds: 120 }.boxed(),
        ],
    }
}
