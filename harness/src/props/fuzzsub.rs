//! libFuzzer integration: quick tier replays the committed corpus of a target through the same
//! oracle in-process; thorough tier runs a `cargo +nightly fuzz run` campaign on a fresh corpus copy
//! and turns artifacts into replay files.
use crate::engine::{no_panic, Ctx, Failure, Stats, Sub, SubResult, Tier};
use crate::fuzz;
use serde::{Deserialize, Serialize};
use serde_json::{json, Value};
use std::path::PathBuf;
use std::time::Instant;

#[derive(Clone, Debug, Serialize, Deserialize)]
pub struct FuzzInput {
    pub target: String,
    pub hex: String,
}

fn to_hex(b: &[u8]) -> String {
    b.iter().map(|x| format!("{:02x}", x)).collect()
}
fn from_hex(s: &str) -> Vec<u8> {
    (0..s.len() / 2).filter_map(|i| u8::from_str_radix(&s[2 * i..2 * i + 2], 16).ok()).collect()
}

pub struct FuzzSub {
    pub name: &'static str,
    pub target: &'static str,
    /// violations of these properties fail the check; violations of others are reported as notes
    pub props: &'static [&'static str],
    /// campaign length in seconds (thorough tier)
    pub seconds: u64,
}

impl FuzzSub {
    pub fn boxed(self) -> Box<dyn Sub> {
        Box::new(self)
    }
    fn corpus_dir(&self, ctx: &Ctx) -> PathBuf {
        ctx.home_dir.join("corpus").join(self.target)
    }
    fn judge(&self, data: &[u8]) -> Result<(), (String, String)> {
        match no_panic(|| Ok(fuzz::oracle(self.target, data))) {
            Ok(Ok(())) => Ok(()),
            Ok(Err((p, m))) => Err((p.to_string(), m)),
            Err(m) => Err(("C01".to_string(), m)),
        }
    }
    fn failure(&self, data: &[u8], prop: &str, msg: &str) -> Failure {
        Failure {
            sub: self.name.to_string(),
            msg: format!("[violates {}] {} (input of {} bytes: {:?})", prop, msg, data.len(), crate::util::short(&String::from_utf8_lossy(data), 300)),
            case: serde_json::to_value(FuzzInput { target: self.target.to_string(), hex: to_hex(data) }).unwrap_or(Value::Null),
            hang: false,
        }
    }
}

impl Sub for FuzzSub {
    fn name(&self) -> String {
        self.name.to_string()
    }

    fn replay(&self, case: &Value) -> Result<(), String> {
        let inp: FuzzInput = serde_json::from_value(case.clone()).map_err(|e| format!("REPLAY-DECODE: {}", e))?;
        let data = from_hex(&inp.hex);
        match self.judge(&data) {
            Ok(()) => Ok(()),
            Err((p, m)) => {
                if self.props.contains(&p.as_str()) {
                    Err(format!("[violates {}] {}", p, m))
                } else {
                    Ok(())
                }
            }
        }
    }

    fn run(&self, ctx: &Ctx) -> SubResult {
        let t0 = Instant::now();
        let mut stats = Stats::default();
        let mut failure = None;
        let mut note = String::new();
        // corpus replay (both tiers)
        let mut files: Vec<PathBuf> = std::fs::read_dir(self.corpus_dir(ctx)).map(|d| d.filter_map(|e| e.ok().map(|e| e.path())).collect()).unwrap_or_default();
        files.sort();
        for f in &files {
            let Ok(data) = std::fs::read(f) else { continue };
            stats.eval();
            stats.nontrivial(&data);
            stats.sample(|| json!({"corpus_file": f.file_name().map(|s| s.to_string_lossy().to_string()), "bytes": data.len(), "text": crate::util::short(&String::from_utf8_lossy(&data), 160)}));
            if let Err((p, m)) = self.judge(&data) {
                if self.props.contains(&p.as_str()) {
                    failure = Some(self.failure(&data, &p, &m));
                    break;
                } else {
                    stats.class(&format!("corpus_input_violates_other_property_{}", p));
                }
            }
        }
        stats.class_n("corpus_inputs_replayed", files.len() as u64);
        if ctx.tier == Tier::Thorough && failure.is_none() {
            match self.campaign(ctx, &mut stats) {
                Ok((f, n)) => {
                    failure = f;
                    note = n;
                }
                Err(e) => note = format!("campaign not run: {}", e),
            }
        } else {
            note = format!("{} corpus inputs replayed through the target's oracle (campaign only in the thorough tier)", files.len());
        }
        SubResult { name: self.name.to_string(), stats, failure, exhaustive: false, wall_s: t0.elapsed().as_secs_f64(), note }
    }
}

impl FuzzSub {
    fn campaign(&self, ctx: &Ctx, stats: &mut Stats) -> Result<(Option<Failure>, String), String> {
        let fuzz_dir = ctx.home_dir.join("harness").join("fuzz");
        let work = fuzz_dir.join("corpus-work").join(format!("{}-{}-{}", self.target, self.name, std::process::id()));
        let arts = fuzz_dir.join("artifacts").join(format!("{}-{}-{}", self.target, self.name, std::process::id()));
        let _ = std::fs::remove_dir_all(&work);
        let _ = std::fs::remove_dir_all(&arts);
        std::fs::create_dir_all(&work).map_err(|e| e.to_string())?;
        std::fs::create_dir_all(&arts).map_err(|e| e.to_string())?;
        if let Ok(d) = std::fs::read_dir(self.corpus_dir(ctx)) {
            for e in d.flatten() {
                let _ = std::fs::copy(e.path(), work.join(e.file_name()));
            }
        }
        let seconds = ((self.seconds as f64) * ctx.scale).max(5.0) as u64;
        let seed = (ctx.seed % 0x7fff_fffe) + 1; // libFuzzer: 0 means random
        let out = std::process::Command::new("cargo")
            .current_dir(&fuzz_dir)
            .env("CARGO_NET_OFFLINE", "true")
            .args(["+nightly", "fuzz", "run", self.target])
            .arg(&work)
            .arg("--")
            .arg(format!("-seed={}", seed))
            .arg(format!("-max_total_time={}", seconds))
            .arg("-timeout=60")
            .arg("-len_control=0")
            .arg("-max_len=4096")
            .arg("-rss_limit_mb=4096")
            .arg("-detect_leaks=0")
            .arg(format!("-dict={}", fuzz_dir.join("html_css.dict").display()))
            .arg(format!("-fork={}", ctx.threads.max(1)))
            .arg(format!("-artifact_prefix={}/", arts.display()))
            .output()
            .map_err(|e| format!("cannot run cargo fuzz: {}", e))?;
        let log = String::from_utf8_lossy(&out.stderr).to_string();
        // statistics: last fork-mode status line `#N: cov: A ft: B corp: C exec/s E ...`
        let mut execs = 0u64;
        let mut cov = 0u64;
        let mut corp = 0u64;
        for l in log.lines() {
            if let Some(rest) = l.strip_prefix('#') {
                if let Some((n, tail)) = rest.split_once(':') {
                    if let Ok(n) = n.trim().parse::<u64>() {
                        execs = execs.max(n);
                        let mut it = tail.split_whitespace();
                        while let Some(tok) = it.next() {
                            match tok {
                                "cov:" => cov = it.next().and_then(|x| x.parse().ok()).unwrap_or(cov),
                                "corp:" => corp = it.next().and_then(|x| x.parse().ok()).unwrap_or(corp),
                                _ => {}
                            }
                        }
                    }
                }
            }
        }
        if execs == 0 && !out.status.success() && !log.contains("exiting") {
            let _ = std::fs::remove_dir_all(&work);
            return Err(format!("cargo fuzz failed: {}", crate::util::short(&log.lines().rev().take(6).collect::<Vec<_>>().join(" | "), 600)));
        }
        stats.evaluations += execs;
        stats.class_n("libfuzzer_executions", execs);
        stats.class_n("libfuzzer_coverage_edges", cov);
        stats.class_n("libfuzzer_corpus_size", corp);
        // distinct inputs kept by libFuzzer for new coverage count as distinct non-trivial cases
        if let Ok(d) = std::fs::read_dir(&work) {
            for e in d.flatten() {
                stats.nontrivial(&e.file_name().to_string_lossy().to_string());
            }
        }
        let mut failure = None;
        let mut other = 0;
        if let Ok(d) = std::fs::read_dir(&arts) {
            let mut files: Vec<PathBuf> = d.flatten().map(|e| e.path()).collect();
            files.sort();
            for f in files {
                let Ok(data) = std::fs::read(&f) else { continue };
                let fname = f.file_name().map(|s| s.to_string_lossy().to_string()).unwrap_or_default();
                let verdict = if fname.starts_with("timeout-") {
                    if data.len() <= 4096 {
                        Err(("C01".to_string(), "libFuzzer timeout (> 60 s on an input of <= 4 KiB)".to_string()))
                    } else {
                        Ok(())
                    }
                } else if fname.starts_with("oom-") {
                    stats.class("oom_artifact(inconclusive)");
                    Ok(())
                } else {
                    match self.judge(&data) {
                        Ok(()) => {
                            stats.class("artifact_not_reproduced_in_process");
                            Ok(())
                        }
                        Err(x) => Err(x),
                    }
                };
                if let Err((p, m)) = verdict {
                    if self.props.contains(&p.as_str()) {
                        if failure.is_none() {
                            failure = Some(self.failure(&data, &p, &m));
                        }
                    } else {
                        other += 1;
                        stats.class(&format!("artifact_violates_other_property_{}", p));
                    }
                }
            }
        }
        let _ = std::fs::remove_dir_all(&work);
        let _ = std::fs::remove_dir_all(&arts);
        Ok((failure, format!("libFuzzer campaign {} s, fork={}, seed={}: {} executions, cov {}, corpus {}; {} artifacts for other properties", seconds, ctx.threads, seed, execs, cov, corp, other)))
    }
}
