//! C04 — paragraph wrapping is exactly greedy word filling with whitespace collapsed.
use super::common::cfg_brief;
use crate::cfg::{render, CfgSpec, Rend};
use crate::engine::{Ctx, EnumSub, PropSub, Property, Stats, Tier};
use crate::util::{cw, short};
use proptest::prelude::*;
use serde::{Deserialize, Serialize};
use serde_json::json;

/// Reference greedy wrapper, written independently of html2text. Err(()) = TooNarrow.
pub fn greedy(words: &[String], w: usize) -> Result<Vec<String>, ()> {
    let mut lines: Vec<String> = vec![];
    let mut cur = String::new();
    let mut curw = 0usize;
    for word in words {
        let ww = sw_chars(word);
        let need = if curw > 0 { 1 + ww } else { ww };
        if w >= curw && need <= w - curw {
            if curw > 0 {
                cur.push(' ');
                curw += 1;
            }
            cur.push_str(word);
            curw += ww;
            continue;
        }
        if !cur.is_empty() {
            lines.push(std::mem::take(&mut cur));
            curw = 0;
        }
        // the word starts a new line and is cut into maximal pieces if wider than a line
        let mut left = w;
        for c in word.chars() {
            let k = cw(c);
            if k > left {
                if curw == 0 {
                    return Err(());
                }
                lines.push(std::mem::take(&mut cur));
                curw = 0;
                left = w;
                if k > left {
                    return Err(());
                }
            }
            cur.push(c);
            curw += k;
            left -= k;
        }
    }
    if !cur.is_empty() {
        lines.push(cur);
    }
    Ok(lines)
}

fn sw_chars(s: &str) -> usize {
    s.chars().map(cw).sum()
}

#[derive(Clone, Debug, Serialize, Deserialize, PartialEq, Eq, Hash)]
pub enum Wrapper {
    None,
    /// `max_wrap_width(m)`
    MaxWrap(usize),
    Ul,
    Quote,
    Ol(i64),
    Dd,
}

#[derive(Clone, Debug, Serialize, Deserialize, PartialEq, Eq, Hash)]
pub struct WrapCase {
    pub words: Vec<String>,
    /// separator choice per gap (index into SEPS)
    pub seps: Vec<u8>,
    /// cut points: (position selector, wrapper tag selector) splitting the text over nodes/elements
    pub cuts: Vec<(u16, u8)>,
    pub width: usize,
    pub wrapper: Wrapper,
    pub trivial: bool,
    /// invisible extras: bit 0 = id on the paragraph, bit 1 = ids on the inline elements
    #[serde(default)]
    pub ids: u8,
    /// `max_wrap_width(m)` on top of a prefixed wrapper (effective width min(m, w - prefix))
    #[serde(default)]
    pub extra_max_wrap: Option<usize>,
}

const SEPS: &[&str] = &[" ", "  ", "\n", " \t ", "\r\n", " <!--x--> ", "<!--x--> ", "<span></span> ", " <b></b>", "<em> </em>", "\u{a0}", " \u{a0}\n", "<span> </span>", "<span>\n</span>", "<u> </u>", "<strong><span> </span></strong>", "<font>\t</font>", "<span><span> </span></span>", "\u{3000}", " \u{3000}", "\u{3000}\n", "\u{2003}", "<span>\u{3000}</span>", "\u{205f} "];
const TAGS: &[&str] = &["", "em", "strong", "code", "span", "a", "i", "u"];

pub fn build_html(case: &WrapCase) -> String {
    // paragraph source: words joined by separators, cut into segments wrapped in inline elements
    let mut pieces: Vec<(String, bool)> = vec![]; // (text, is_sep_markup)
    for (i, w) in case.words.iter().enumerate() {
        if i > 0 {
            let s = SEPS[case.seps.get(i % case.seps.len().max(1)).copied().unwrap_or(0) as usize % SEPS.len()];
            pieces.push((s.to_string(), true));
        }
        pieces.push((w.clone(), false));
    }
    // cut positions are inside words only (char boundaries); each cut closes/open an element
    let mut out = String::from(if case.ids & 1 != 0 { "<p id=\"p0\">" } else { "<p>" });
    let mut serial = 0usize;
    let total_chars: usize = case.words.iter().map(|w| w.chars().count()).sum();
    let mut cut_at: Vec<(usize, &str)> = case
        .cuts
        .iter()
        .map(|(p, t)| {
            let mut tag = TAGS[*t as usize % TAGS.len()];
            if tag == "a" && !case.trivial {
                tag = "span";
            }
            (((*p as usize) * (total_chars + 1)) >> 16, tag)
        })
        .collect();
    cut_at.sort();
    let mut open: Option<&str> = None;
    let mut idx = 0usize; // index over word characters
    let mut ci = 0;
    let with_ids = case.ids & 2 != 0;
    let mut apply_cuts = |idx: usize, out: &mut String, open: &mut Option<&str>, ci: &mut usize, cut_at: &Vec<(usize, &'static str)>| {
        while *ci < cut_at.len() && cut_at[*ci].0 == idx {
            if let Some(t) = open.take() {
                out.push_str(&format!("</{}>", t));
            }
            let t = cut_at[*ci].1;
            if !t.is_empty() {
                let id = if with_ids {
                    serial += 1;
                    format!(" id=\"k{}\"", serial)
                } else {
                    String::new()
                };
                if t == "a" {
                    out.push_str(&format!("<a href=\"u\"{}>", id));
                } else {
                    out.push_str(&format!("<{}{}>", t, id));
                }
                *open = Some(t);
            } else {
                out.push_str("<!---->");
            }
            *ci += 1;
        }
    };
    let cut_static: Vec<(usize, &'static str)> = cut_at.iter().map(|(p, t)| (*p, TAGS.iter().find(|x| **x == *t).copied().unwrap_or(""))).collect();
    for (text, is_sep) in &pieces {
        if *is_sep {
            out.push_str(text);
        } else {
            for c in text.chars() {
                apply_cuts(idx, &mut out, &mut open, &mut ci, &cut_static);
                match c {
                    '<' => out.push_str("&lt;"),
                    '>' => out.push_str("&gt;"),
                    '&' => out.push_str("&amp;"),
                    c => out.push(c),
                }
                idx += 1;
            }
        }
    }
    if let Some(t) = open.take() {
        out.push_str(&format!("</{}>", t));
    }
    out.push_str("</p>");
    match &case.wrapper {
        Wrapper::None | Wrapper::MaxWrap(_) => out,
        Wrapper::Ul => format!("<ul><li>{}</li></ul>", out),
        Wrapper::Quote => format!("<blockquote>{}</blockquote>", out),
        Wrapper::Ol(s) => format!("<ol start=\"{}\"><li>{}</li></ol>", s, out),
        Wrapper::Dd => format!("<dl><dd>{}</dd></dl>", out),
    }
}

pub fn check_wrap(case: &WrapCase, st: &mut Stats) -> Result<(), String> {
    if case.words.is_empty() || case.words.iter().any(|w| w.is_empty() || sw_chars(w) == 0 || w.chars().any(|c| c.is_whitespace())) {
        return Err("harness: words must be non-empty, non-blank, of width >= 1".into());
    }
    let mut cfg = if case.trivial { CfgSpec::trivial() } else { CfgSpec::plain_nd() };
    let w = case.width;
    let (p1, pn): (String, String) = match &case.wrapper {
        Wrapper::None => ("".into(), "".into()),
        Wrapper::MaxWrap(m) => {
            cfg.max_wrap = Some(*m);
            ("".into(), "".into())
        }
        Wrapper::Ul => (if case.trivial { "" } else { "* " }.into(), if case.trivial { "" } else { "  " }.into()),
        Wrapper::Quote => (if case.trivial { "" } else { "> " }.into(), if case.trivial { "" } else { "> " }.into()),
        Wrapper::Ol(s) => {
            if case.trivial {
                ("".into(), "".into())
            } else {
                let p = format!("{}. ", s);
                let n = " ".repeat(p.len());
                (p, n)
            }
        }
        Wrapper::Dd => ("  ".into(), "  ".into()),
    };
    let mut eff = match &case.wrapper {
        Wrapper::MaxWrap(m) => (*m).min(w),
        _ => w.saturating_sub(p1.len()),
    };
    if let Some(m) = case.extra_max_wrap {
        if !matches!(case.wrapper, Wrapper::MaxWrap(_)) {
            cfg.max_wrap = Some(m);
            eff = eff.min(m);
            st.class("max_wrap_on_prefixed_or_plain");
        }
    }
    if case.ids != 0 {
        st.class("with_ids");
    }
    let html = build_html(case);
    st.sample(|| json!({"html": short(&html, 300), "width": w, "effective_width": eff, "cfg": cfg_brief(&cfg)}));
    let got = render(&cfg, html.as_bytes(), w);
    if let Some(b) = got.bad() {
        return Err(format!("{}\nhtml={}", b, html));
    }
    let exp = if eff == 0 { Err(()) } else { greedy(&case.words, eff) };
    let prefixed = !matches!(case.wrapper, Wrapper::None | Wrapper::MaxWrap(_));
    match (&got, &exp) {
        (Rend::Ok(s), Ok(lines)) => {
            let got_lines: Vec<&str> = s.lines().collect();
            let exp_lines: Vec<String> = lines.iter().enumerate().map(|(i, l)| format!("{}{}", if i == 0 { &p1 } else { &pn }, l)).collect();
            if got_lines != exp_lines.iter().map(|s| s.as_str()).collect::<Vec<_>>() {
                return Err(format!(
                    "lines differ from the greedy reference (w={}, effective {})\n html={}\n got={:?}\n exp={:?}",
                    w, eff, html, got_lines, exp_lines
                ));
            }
            let hard = case.words.iter().any(|x| sw_chars(x) > eff);
            if hard {
                st.class("hard_split");
            }
            if got_lines.len() >= 2 || hard {
                st.nontrivial(&(&case.words, w, &case.wrapper, &case.cuts, &case.seps));
                st.nt_sample(|| json!({"html": short(&html, 300), "width": w, "lines": got_lines}));
            }
        }
        (Rend::TooNarrow, Err(())) => st.class("toonarrow_expected"),
        (Rend::Ok(s), Err(())) => {
            return Err(format!("rendering succeeded but a character cannot fit in the effective width {}\n html={}\n got={:?}", eff, html, s));
        }
        (Rend::TooNarrow, Ok(lines)) => {
            if prefixed {
                // the block's minimum-width estimate may refuse before wrapping is attempted
                st.class("prefixed_toonarrow_by_estimate(not asserted)");
            } else {
                return Err(format!("TooNarrow although the reference wraps fine at width {}\n html={}\n exp={:?}", eff, html, lines));
            }
        }
        _ => unreachable!(),
    }
    Ok(())
}

const WORDSET: &[&str] = &["a", "ab", "abc", "abcd", "abcde", "abcdefg", "中", "a中", "中中中", "a\u{301}b", "ab中c"];

fn exhaustive_items(ctx: &Ctx) -> Vec<WrapCase> {
    let maxn = if ctx.tier == Tier::Quick { 3 } else { 5 };
    let n = WORDSET.len();
    let mut v = vec![];
    let mut idx = vec![0usize];
    loop {
        // emit current for all widths
        for w in 1..=9usize {
            v.push(WrapCase {
                words: idx.iter().map(|&i| WORDSET[i].to_string()).collect(),
                seps: vec![0],
                cuts: vec![],
                width: w,
                wrapper: Wrapper::None,
                trivial: false,
                ids: 0,
                extra_max_wrap: None,
            });
        }
        // next tuple (odometer over lengths 1..=maxn)
        let mut k = idx.len();
        loop {
            if k == 0 {
                if idx.len() == maxn {
                    return v;
                }
                idx = vec![0; idx.len() + 1];
                break;
            }
            k -= 1;
            if idx[k] + 1 < n {
                idx[k] += 1;
                for j in k + 1..idx.len() {
                    idx[j] = 0;
                }
                break;
            }
        }
    }
}

pub fn word() -> BoxedStrategy<String> {
    prop_oneof![
        8 => "[a-z]{1,8}",
        2 => "[a-zA-Z0-9.,;:!?'()-]{1,12}",
        2 => "[a-z]{9,30}",
        1 => "[a-z]{1,3}[中文字宽東京]{1,3}[a-z]{0,2}",
        1 => "[a-z]{1,4}\u{301}[a-z]{0,3}",
        1 => "[中文字宽😀東京]{1,6}",
        1 => "[a-zé€ß]{1,6}",
    ]
    .boxed()
}

pub fn wrap_case() -> BoxedStrategy<WrapCase> {
    let wrapper = prop_oneof![
        5 => Just(Wrapper::None),
        2 => (1usize..45).prop_map(Wrapper::MaxWrap),
        1 => Just(Wrapper::Ul),
        1 => Just(Wrapper::Quote),
        1 => prop_oneof![Just(1i64), Just(9), Just(10), Just(-3), Just(100)].prop_map(Wrapper::Ol),
        1 => Just(Wrapper::Dd),
    ];
    (
        prop::collection::vec(word(), 1..60),
        prop::collection::vec(any::<u8>(), 1..8),
        prop::collection::vec((any::<u16>(), any::<u8>()), 0..8),
        1usize..=40,
        wrapper,
        any::<bool>(),
        prop_oneof![3 => Just(0u8), 1 => Just(1u8), 1 => Just(2u8), 1 => Just(3u8)],
        prop::option::weighted(0.2, 1usize..45),
    )
        .prop_map(|(words, seps, cuts, width, wrapper, trivial, ids, extra_max_wrap)| WrapCase { words, seps, cuts, width, wrapper, trivial, ids, extra_max_wrap })
        .boxed()
}

pub fn property() -> Property {
    Property {
        id: "C04",
        level: "exploration",
        rule: "exhaustive: all sequences of <= 3 (quick) / <= 5 (thorough) words over an 11-word set covering display widths 1..7 with width-2 and width-0 characters at every position x widths 1..=9; random: <= 60 words (ASCII, punctuation, CJK, emoji, combining) with separators from 18 kinds (space runs, tab, CR LF, NBSP, comments, empty inline elements, whitespace alone inside <em>/<span>/<u>/<font>/nested spans), the text cut at random character positions into inline elements (em/strong/code/span/a/i/u) and comment-split text nodes, width 1..=40, plain_no_decorate or trivial, optionally under max_wrap_width(m) or inside ul/ol/blockquote/dd; oracle: an independent 30-line greedy wrapper; line lists equal, Err <=> a character wider than the effective width. Non-trivial = >= 2 output lines or a hard-split word; distinct by (words, width, wrapper, cuts, separators).",
        assumptions: vec!["words have display width >= 1 (a word of only zero-width characters is outside the stated domain)", "for prefixed blocks TooNarrow by the block's minimum-width estimate is accepted when the reference would wrap"],
        hang_is_violation: false,
        subs: vec![
            EnumSub::new("exhaustive", true, exhaustive_items, check_wrap).boxed(),
            PropSub::new("random", 60_000, 600_000, wrap_case, check_wrap).boxed(),
        ],
    }
}
