//! C19 — competing declarations are resolved by the CSS cascade.
use super::c09::check_annotations;
use super::csscommon::*;
use crate::cfg::{render_lines, Ann, CfgSpec, OElem, Rend};
use crate::cssgen::{self, cascade_key, colour_hex, Candidate, Origin, Prop, Styling, Variant};
use crate::engine::{Ctx, EnumSub, PropSub, Property, Stats};
use crate::util::short;
use proptest::prelude::*;
use serde::{Deserialize, Serialize};
use serde_json::json;

/// One colour declaration of the exhaustive enumeration.
#[derive(Clone, Copy, Debug, Serialize, Deserialize, PartialEq, Eq, Hash)]
pub struct Kind {
    /// 0 agent, 1 user, 2 author, 3 inline
    pub origin: u8,
    pub important: bool,
    /// 0 `p`, 1 `.c`, 2 `#i`, 3 `p.c`, 4 `:nth-child(1)` (ignored for inline)
    pub spec: u8,
}

#[derive(Clone, Debug, Serialize, Deserialize, PartialEq, Eq, Hash)]
pub struct TupleCase {
    pub decls: Vec<Kind>,
    /// use background-color instead of color
    pub bg: bool,
    /// (i, j), i < j: declaration j restates the value of declaration i (a restatement must still take
    /// part in the cascade with its own importance, origin, specificity and position)
    #[serde(default)]
    pub same: Option<(u8, u8)>,
}

const SELS: [&str; 5] = ["p", ".c", "#i", "p.c", ":nth-child(1)"];
const SPECS: [(u32, u32, u32); 5] = [(0, 0, 1), (0, 1, 0), (1, 0, 0), (0, 1, 1), (0, 1, 0)];

pub fn all_kinds() -> Vec<Kind> {
    let mut v = vec![];
    for origin in 0..3u8 {
        for important in [false, true] {
            for spec in 0..5u8 {
                v.push(Kind { origin, important, spec });
            }
        }
    }
    for important in [false, true] {
        v.push(Kind { origin: 3, important, spec: 0 });
    }
    v
}

pub fn check_tuple(case: &TupleCase, st: &mut Stats) -> Result<(), String> {
    let prop = if case.bg { "background-color" } else { "color" };
    let mut sheets: [String; 3] = Default::default();
    let mut inline = String::new();
    let mut cands: Vec<(Candidate, u32)> = vec![];
    // application order: agent sheet, user sheet, author sheet, inline; within a sheet: tuple order
    for (i, k) in case.decls.iter().enumerate() {
        let vi = match case.same {
            Some((a, b)) if b as usize == i => a as usize,
            _ => i,
        };
        let colour = 0x010000 + (vi as u32 + 1) * 0x11;
        let imp = if k.important { " !important" } else { "" };
        if k.origin == 3 {
            inline.push_str(&format!("{}:{}{};", prop, colour_hex(colour), imp));
        } else {
            sheets[k.origin as usize].push_str(&format!("{} {{ {}: {}{}; }}\n", SELS[k.spec as usize], prop, colour_hex(colour), imp));
        }
        let origin = match k.origin {
            0 => Origin::Agent,
            1 => Origin::User,
            _ => Origin::Author,
        };
        cands.push((
            Candidate {
                origin,
                important: k.important,
                inline: k.origin == 3,
                specificity: if k.origin == 3 { (0, 0, 0) } else { SPECS[k.spec as usize] },
                order: (k.origin as usize) * 100 + i,
                prop: Prop::Color(colour),
            },
            colour,
        ));
    }
    let expected = cands.iter().max_by_key(|(c, _)| cascade_key(c)).map(|(_, col)| *col).unwrap();
    let html = format!(
        "<!DOCTYPE html><html><head><style>{}</style></head><body><p class=\"c\" id=\"i\"{}>x</p></body></html>",
        sheets[2],
        if inline.is_empty() { String::new() } else { format!(" style=\"{}\"", inline) }
    );
    let mut cfg = CfgSpec::rich();
    cfg.doc_css = true;
    if !sheets[0].is_empty() {
        cfg.agent_css = vec![sheets[0].clone()];
    }
    if !sheets[1].is_empty() {
        cfg.user_css = vec![sheets[1].clone()];
    }
    st.sample(|| json!({"agent": sheets[0], "user": sheets[1], "html": html}));
    let r = render_lines(&cfg, html.as_bytes(), 20);
    let Rend::Ok(lines) = r else { return Err(format!("not rendered: {:?} {}", r.kind(), r.bad().unwrap_or_default())) };
    let mut got: Vec<u32> = vec![];
    for l in &lines {
        for e in l {
            if let OElem::Str(s, tags) = e {
                if s.contains('x') {
                    for t in tags {
                        match t {
                            Ann::Colour(r, g, b) if !case.bg => got.push(((*r as u32) << 16) | ((*g as u32) << 8) | *b as u32),
                            Ann::BgColour(r, g, b) if case.bg => got.push(((*r as u32) << 16) | ((*g as u32) << 8) | *b as u32),
                            _ => {}
                        }
                    }
                }
            }
        }
    }
    // `:nth-child(1)` also matches <html>; the element's own colour is the innermost one
    if got.last() != Some(&expected) {
        let describe = |k: &Kind| format!("{}{}{}", ["agent", "user", "author", "inline"][k.origin as usize], if k.important { "!" } else { "" }, if k.origin == 3 { String::new() } else { format!("({})", SELS[k.spec as usize]) });
        return Err(format!(
            "cascade: declarations {:?} (in source order; colours #0100{{11,22,33}}{}) => expected winner {} but the text carries {:?}\n agent css={:?}\n user css={:?}\n html={}",
            case.decls.iter().map(describe).collect::<Vec<_>>(),
            match case.same {
                Some((a, b)) => format!(", but declaration {} restates the colour of declaration {}", b + 1, a + 1),
                None => String::new(),
            },
            colour_hex(expected),
            got.iter().map(|c| colour_hex(*c)).collect::<Vec<_>>(),
            sheets[0],
            sheets[1],
            html
        ));
    }
    // decided by exactly one key component between the two best candidates?
    let mut keys: Vec<_> = cands.iter().map(|(c, _)| cascade_key(c)).collect();
    keys.sort();
    if keys.len() >= 2 {
        let a = keys[keys.len() - 1];
        let b = keys[keys.len() - 2];
        let diffs = (a.0 != b.0) as u8 + (a.1 != b.1) as u8 + (a.2 != b.2) as u8;
        let comp = if a.0 != b.0 { "importance/origin" } else if a.1 != b.1 { "inline" } else if a.2 != b.2 { "specificity" } else { "source order" };
        st.class(&format!("decided_by_{}", comp));
        if diffs <= 1 {
            st.nontrivial(case);
        }
    }
    Ok(())
}

/// Specificity counts are compared component by component however large they get: a selector
/// repeating one class (or id) k times against a short selector, in both source orders.
#[derive(Clone, Debug, Serialize, Deserialize, PartialEq, Eq, Hash)]
pub struct BigSpecCase {
    /// number of repetitions
    pub k: usize,
    /// repeat `#i` instead of `.c`
    pub ids: bool,
    /// the competing selector: index into SELS
    pub other: u8,
    /// the repeated selector's rule comes first
    pub first: bool,
    pub user: bool,
}

fn bigspec_items(_ctx: &Ctx) -> Vec<BigSpecCase> {
    let mut v = vec![];
    for k in [2usize, 15, 16, 17, 255, 256, 257, 300, 1000] {
        for ids in [false, true] {
            for other in 0..4u8 {
                for first in [false, true] {
                    for user in [false, true] {
                        v.push(BigSpecCase { k, ids, other, first, user });
                    }
                }
            }
        }
    }
    v
}

pub fn check_bigspec(case: &BigSpecCase, st: &mut Stats) -> Result<(), String> {
    let rep = if case.ids { "#i".repeat(case.k) } else { ".c".repeat(case.k) };
    let spec_rep = if case.ids { (case.k as u32, 0, 0) } else { (0, case.k as u32, 0) };
    let spec_other = SPECS[case.other as usize];
    let (c1, c2) = (0x010203u32, 0x040506u32);
    let r1 = format!("{} {{ color: {} }}", rep, colour_hex(c1));
    let r2 = format!("{} {{ color: {} }}", SELS[case.other as usize], colour_hex(c2));
    let sheet = if case.first { format!("{}\n{}\n", r1, r2) } else { format!("{}\n{}\n", r2, r1) };
    // higher specificity wins; on a tie the later rule
    let expected = match spec_rep.cmp(&spec_other) {
        std::cmp::Ordering::Greater => c1,
        std::cmp::Ordering::Less => c2,
        std::cmp::Ordering::Equal => if case.first { c2 } else { c1 },
    };
    let mut cfg = CfgSpec::rich();
    let html = if case.user {
        cfg.user_css = vec![sheet.clone()];
        "<p class=\"c\" id=\"i\">x</p>".to_string()
    } else {
        cfg.doc_css = true;
        format!("<html><head><style>{}</style></head><body><p class=\"c\" id=\"i\">x</p></body></html>", sheet)
    };
    let r = render_lines(&cfg, html.as_bytes(), 20);
    let Rend::Ok(lines) = r else { return Err(format!("not rendered: {:?} {}", r.kind(), r.bad().unwrap_or_default())) };
    let mut got: Vec<u32> = vec![];
    for l in &lines {
        for e in l {
            if let OElem::Str(s, tags) = e {
                if s.contains('x') {
                    for t in tags {
                        if let Ann::Colour(r, g, b) = t {
                            got.push(((*r as u32) << 16) | ((*g as u32) << 8) | *b as u32);
                        }
                    }
                }
            }
        }
    }
    st.nontrivial(case);
    if got.last() != Some(&expected) {
        return Err(format!(
            "cascade: `{}` repeated {} times (specificity {:?}) against `{}` (specificity {:?}), repeated rule {}: expected {} but the text carries {:?}",
            if case.ids { "#i" } else { ".c" }, case.k, spec_rep, SELS[case.other as usize], spec_other, if case.first { "first" } else { "last" }, colour_hex(expected), got.iter().map(|c| colour_hex(*c)).collect::<Vec<_>>()
        ));
    }
    Ok(())
}

fn tuple_items(ctx: &Ctx) -> Vec<TupleCase> {
    let kinds = all_kinds();
    let mut v = vec![];
    for a in &kinds {
        for b in &kinds {
            v.push(TupleCase { decls: vec![*a, *b], bg: false, same: None });
            v.push(TupleCase { decls: vec![*a, *b], bg: true, same: None });
        }
    }
    for (i, a) in kinds.iter().enumerate() {
        let _ = (i, ctx);
        for b in &kinds {
            for c in &kinds {
                v.push(TupleCase { decls: vec![*a, *b, *c], bg: false, same: None });
                // the same triple with one value restated: (0,1), (0,2), (1,2) in turn
                let n = v.len() % 3;
                v.push(TupleCase { decls: vec![*a, *b, *c], bg: false, same: Some([(0, 1), (0, 2), (1, 2)][n]) });
            }
        }
    }
    v
}

#[derive(Clone, Debug, Serialize, Deserialize, PartialEq, Eq, Hash)]
pub struct RandomCase {
    pub inner: StyledCase,
}

pub fn check_random(case: &RandomCase, st: &mut Stats) -> Result<(), String> {
    let sc = &case.inner;
    let html = sc.html();
    let cfg = sc.cfg();
    st.sample(|| json!({"agent": cfg.agent_css, "user": cfg.user_css, "html": short(&html, 500), "use_doc_css": sc.use_doc_css}));
    let eff = sc.effective_styling();
    let colours = reference_colours(&eff, sc.use_doc_css);
    let c2 = case.clone();
    check_annotations(&html, &cfg, sc.width, &colours, st, &move |st, multi| {
        if multi {
            st.nontrivial(&c2);
        }
    })
    .map_err(|e| format!("{}\n agent={:?}\n user={:?}\n use_doc_css={}", e, cfg.agent_css, cfg.user_css, sc.use_doc_css))
}

fn random_case() -> BoxedStrategy<RandomCase> {
    decorated_doc(css_doc_g())
        .prop_flat_map(|(doc, ids)| {
            (
                Just(doc),
                colour_sheet(4, ids.max(2), 0x100000),
                colour_sheet(4, ids.max(2), 0x200000),
                colour_sheet(4, ids.max(2), 0x300000),
                prop::collection::vec(any::<u8>(), 0..8),
                1usize..=100,
                prop::bool::weighted(0.85),
                cssgen::variant(),
                any::<bool>(),
            )
        })
        .prop_map(|(mut doc, agent, user, author, inl, width, use_doc_css, mut variant, repeat)| {
            // a third of the cases: the author sheet over two <style> elements, half of those with the first repeated
            if width % 3 == 0 {
                variant.split = true;
            }
            let mut next = 0x400000;
            inline_styles(&mut doc, &inl, &mut next);
            RandomCase { inner: StyledCase { doc, styling: Styling { agent, user, author }, width, use_doc_css, variant: Variant { junk: vec![], repeat, ..variant } } }
        })
        .boxed()
}

pub fn property() -> Property {
    Property {
        id: "C19",
        level: "exploration",
        rule: "exhaustive: all ordered pairs (x color / background-color) and all ordered triples of declarations from 32 kinds = {agent, user, author} x {normal, !important} x selector in {p, .c, #i, p.c, :nth-child(1)} plus inline {normal, !important}, applied to one element through add_agent_css / add_css / the document's <style> / its style attribute, unique colour per declaration, and every triple once more with one declaration restating the value of an earlier one (pairs (1,2), (1,3), (2,3) in rotation); random: agent + user + author sheets of <= 4 rules each (selector lists from C20's grammar, color / background-color, 25% !important) and inline styles over nested table-free documents, with and without use_doc_css. Oracle: reference cascade (importance-and-origin rank agent < user < author < author! < user! < agent!, inline over selectors, specificity (ids, classes+pseudo-classes, elements), source order) picks the winner per element and property; rich output must carry exactly the winners' Colour/BgColour on every text piece, nearest enclosing element innermost (full annotation vectors as in C09). Non-trivial (tuples) = the two best candidates differ in at most one key component; (random) a text with >= 2 annotations in a structured position; distinct by the whole case.",
        assumptions: vec!["selector matching itself is C20's subject (same reference matcher)", "documents are table-free"],
        hang_is_violation: false,
        subs: vec![
            EnumSub::new("tuples", true, tuple_items, check_tuple).boxed(),
            EnumSub::new("big_specificity", true, bigspec_items, check_bigspec).boxed(),
            PropSub::new("random", 30_000, 300_000, random_case, check_random).with_validity(|c| c.inner.doc.valid() && styling_valid(&c.inner.styling)).boxed(),
        ],
    }
}
