//! C10 — all API routes agree; rendering is deterministic; render trees are reusable.
use super::common::*;
use crate::cfg::{free_fn, render, render_route, staged_renders, staged_shared_dom, CfgSpec, Deco, Rend, Route, StagedKind};
use super::fuzzsub::FuzzSub;
use crate::engine::{PropSub, Property, Stats};
use crate::gen::{self, census, Doc, Mutation, G};
use crate::util::short;
use proptest::prelude::*;
use serde::{Deserialize, Serialize};
use serde_json::json;

#[derive(Clone, Debug, Serialize, Deserialize, PartialEq, Eq, Hash)]
pub enum WidthSel {
    Zero,
    Tiny(u8),
    Base,
    Plus(u8),
    Abs(u16),
}

#[derive(Clone, Debug, Serialize, Deserialize, PartialEq, Eq, Hash)]
pub struct Op {
    pub width: WidthSel,
    pub kind: StagedKind,
}

#[derive(Clone, Debug, Serialize, Deserialize, PartialEq, Eq, Hash)]
pub struct HistCase {
    pub doc: Doc,
    #[serde(default, skip_serializing_if = "Vec::is_empty")]
    pub muts: Vec<Mutation>,
    pub cfg: CfgSpec,
    pub base: usize,
    pub ops: Vec<Op>,
}

fn resolve(w: &WidthSel, base: usize) -> usize {
    match w {
        WidthSel::Zero => 0,
        WidthSel::Tiny(k) => 1 + (*k as usize % 4),
        WidthSel::Base => base,
        WidthSel::Plus(k) => base + *k as usize,
        WidthSel::Abs(k) => *k as usize,
    }
}

fn same(a: &Rend<String>, b: &Rend<String>) -> bool {
    a == b
}

fn describe(r: &Rend<String>) -> String {
    match r {
        Rend::Ok(s) => format!("Ok({:?})", short(s, 300)),
        x => format!("{:?}", x),
    }
}

pub fn check_history(case: &HistCase, st: &mut Stats) -> Result<(), String> {
    let html = if case.muts.is_empty() { case.doc.to_html().into_bytes() } else { gen::mutate(case.doc.to_html().as_bytes(), &case.muts) };
    let widths: Vec<(usize, StagedKind)> = case.ops.iter().map(|o| (resolve(&o.width, case.base), o.kind)).collect();
    st.sample(|| json!({"html": short(&String::from_utf8_lossy(&html), 300), "cfg": cfg_brief(&case.cfg), "renders": widths.iter().map(|(w, k)| format!("{:?}@{}", k, w)).collect::<Vec<_>>() }));
    // the staged route: one tree, many renders
    let staged = match staged_renders(&case.cfg, &html, &widths) {
        Rend::Ok(v) => v,
        other => return Err(format!("staged route failed before rendering: {:?}", other.kind())),
    };
    let mut narrow_between = false;
    let mut seen_ok = false;
    let mut distinct = std::collections::BTreeSet::new();
    for (i, (w, kind)) in widths.iter().enumerate() {
        let fresh = render(&case.cfg, &html, *w);
        if let Some(b) = fresh.bad() {
            return Err(format!("one-shot render: {} (w={})", b, w));
        }
        if !same(&staged[i], &fresh) {
            return Err(format!(
                "staged render #{} ({:?} at width {}) differs from a fresh one-shot rendering\n staged={}\n fresh ={}\n html={}",
                i, kind, w, describe(&staged[i]), describe(&fresh), short(&String::from_utf8_lossy(&html), 600)
            ));
        }
        distinct.insert(*w);
        if fresh.is_narrow() && seen_ok {
            narrow_between = true;
        }
        if fresh.is_ok() {
            seen_ok = true;
        }
        st.class(fresh.kind());
        // determinism and the one-shot routes at this width
        let again = render(&case.cfg, &html, *w);
        if !same(&again, &fresh) {
            return Err(format!("two identical one-shot calls differ at width {}", w));
        }
        for route in [Route::Lines, Route::Coloured, Route::StagedColoured] {
            if i > 1 && route != Route::Lines {
                continue;
            }
            let r = render_route(&case.cfg, &html, *w, route);
            if !same(&r, &fresh) {
                return Err(format!(
                    "route {:?} differs from string_from_read at width {}\n route={}\n str  ={}\n html={}",
                    route, w, describe(&r), describe(&fresh), short(&String::from_utf8_lossy(&html), 600)
                ));
            }
        }
        if case.cfg.n_options() == 0 && i == 0 {
            let which = match case.cfg.deco {
                Deco::Plain => Some(0u8),
                Deco::Rich => Some(1),
                Deco::Trivial => Some(2),
                _ => None,
            };
            if let Some(k) = which {
                st.class("free_fn");
                let r = free_fn(k, &html, *w);
                if !same(&r, &fresh) {
                    return Err(format!("free function #{} differs from its config:: spelling at width {}\n free={}\n cfg ={}", k, w, describe(&r), describe(&fresh)));
                }
            }
        }
    }
    let c = census(&case.doc.blocks);
    if widths.len() >= 3 && distinct.len() >= 2 && (c.tables + c.lists > 0) {
        st.class("history>=3_widths>=2_structured");
        if narrow_between {
            st.class("toonarrow_in_between");
            st.nontrivial(case);
        }
    }
    Ok(())
}

pub fn hist_case(g: G, mutate: bool) -> BoxedStrategy<HistCase> {
    let w = prop_oneof![
        1 => Just(WidthSel::Zero),
        3 => any::<u8>().prop_map(WidthSel::Tiny),
        4 => Just(WidthSel::Base),
        2 => (0u8..40).prop_map(WidthSel::Plus),
        2 => (1u16..150).prop_map(WidthSel::Abs),
    ];
    let kind = prop_oneof![Just(StagedKind::Str), Just(StagedKind::Lines), Just(StagedKind::Coloured)];
    let op = (w, kind).prop_map(|(width, kind)| Op { width, kind });
    let muts = if mutate { gen::mutations() } else { Just(vec![]).boxed() };
    let cfg = prop_oneof![
        2 => deco_std().prop_map(CfgSpec::of),
        3 => cfg_any(),
    ];
    (gen::doc(&g), muts, cfg, 4usize..80, prop::collection::vec(op, 1..=6))
        .prop_map(|(doc, muts, cfg, base, ops)| HistCase { doc, muts, cfg, base, ops })
        .boxed()
}

/// One parsed DOM, several configurations: every step builds a render tree from the shared DOM
/// with one configuration and renders it with a configuration that has the same build-time
/// settings (CSS sources) but possibly other render-time options and another decorator.
#[derive(Clone, Debug, Serialize, Deserialize, PartialEq, Eq, Hash)]
pub struct SharedDomCase {
    pub doc: Doc,
    /// (build configuration, render configuration, width)
    pub steps: Vec<(CfgSpec, CfgSpec, usize)>,
}

/// Options consumed by dom_to_render_tree rather than by the rendering: the CSS sources and
/// `do_decorate` (which config::plain() includes).
fn build_time_decorate(c: &CfgSpec) -> bool {
    c.decorate || c.deco == Deco::Plain
}

pub fn check_shared_dom(case: &SharedDomCase, st: &mut Stats) -> Result<(), String> {
    let html = case.doc.to_html().into_bytes();
    for (b, r, _) in &case.steps {
        if b.doc_css != r.doc_css || b.user_css != r.user_css || b.agent_css != r.agent_css || build_time_decorate(b) != build_time_decorate(r) {
            return Err("harness: build and render configuration must agree on the build-time settings (CSS sources, do_decorate)".into());
        }
    }
    st.sample(|| json!({"html": short(&String::from_utf8_lossy(&html), 300), "steps": case.steps.iter().map(|(b, r, w)| format!("build {} / render {} @{}", cfg_brief(b), cfg_brief(r), w)).collect::<Vec<_>>() }));
    let got = match staged_shared_dom(&html, &case.steps) {
        Rend::Ok(v) => v,
        other => return Err(format!("shared-DOM route failed before rendering: {:?}", other.kind())),
    };
    let mut mixed = false;
    for (i, (b, r, w)) in case.steps.iter().enumerate() {
        let fresh = render(r, &html, *w);
        if let Some(bad) = fresh.bad() {
            return Err(format!("one-shot render: {} (w={})", bad, w));
        }
        if !same(&got[i], &fresh) {
            return Err(format!(
                "step #{} (tree built from the shared DOM with {}, rendered with {} at width {}) differs from a fresh one-shot rendering with the rendering configuration\n staged={}\n fresh ={}\n html={}",
                i, cfg_brief(b), cfg_brief(r), w, describe(&got[i]), describe(&fresh), short(&String::from_utf8_lossy(&html), 600)
            ));
        }
        if b != r {
            mixed = true;
        }
        st.class(fresh.kind());
    }
    let css_varies = case.steps.windows(2).any(|p| p[0].0.user_css != p[1].0.user_css || p[0].0.doc_css != p[1].0.doc_css || p[0].0.agent_css != p[1].0.agent_css);
    if css_varies {
        st.class("css_sources_change_between_conversions_of_one_dom");
    }
    if mixed {
        st.class("render_config_differs_from_build_config");
    }
    if case.steps.len() >= 2 && (mixed || css_varies) {
        st.nontrivial(case);
    }
    Ok(())
}

const SHARED_SHEETS: &[&str] = &[
    "p { color: #010203 }",
    "li:nth-child(2) { color: #a0b0c0 }",
    "li:nth-child(3) { background-color: #112233 }",
    ".c0 { display: none }",
    "em, strong { color: #445566 }",
    "td { white-space: pre }",
    "div > p { color: red }",
];

pub fn shared_dom_case(g: G) -> BoxedStrategy<SharedDomCase> {
    // a render configuration derived from the build configuration: same CSS sources, other
    // render-time options, possibly another decorator
    let step = (cfg_any(), cfg_any(), prop::bool::weighted(0.5), prop::collection::vec(0usize..SHARED_SHEETS.len(), 0..3), any::<bool>(), 1usize..=80).prop_map(|(mut b, mut r, same, sheets, doc_css, w)| {
        b.user_css = sheets.iter().map(|k| SHARED_SHEETS[*k].to_string()).collect();
        b.agent_css = vec![];
        b.doc_css = doc_css;
        if same {
            r = b.clone();
        } else {
            r.user_css = b.user_css.clone();
            r.agent_css = b.agent_css.clone();
            r.doc_css = b.doc_css;
            // `do_decorate` (part of config::plain()) is consumed when the tree is built
            let flag = build_time_decorate(&b);
            if flag {
                if r.deco != Deco::Plain {
                    r.decorate = true;
                }
            } else {
                r.decorate = false;
                if r.deco == Deco::Plain {
                    r.deco = Deco::PlainNoDecorate;
                }
            }
        }
        (b, r, w)
    });
    (styled_hist_case(g), prop::collection::vec(step, 1..=4))
        .prop_map(|(h, steps)| SharedDomCase { doc: h.doc, steps })
        .boxed()
}

/// Declarations html2text understands, for style attributes on random elements.  The oracle is
/// route equality, so any declaration is in the domain.
const STYLE_DECLS: &[&str] = &[
    "white-space:pre",
    "white-space:pre-wrap",
    "white-space:normal",
    "white-space:pre-line",
    "color:#112233",
    "background-color:#a0b0c0",
    "color:red !important",
    "display:none",
    "display:inline",
    "display:block",
    "height:0;overflow:hidden",
    "max-height:0;overflow:hidden",
    "height:0;max-height:4px;overflow:hidden",
    "white-space:pre;color:#010203",
    "bogus:1;white-space:pre",
];

/// Documents with style attributes on random elements (incl. table rows and cells), rendered with use_doc_css.
pub fn styled_hist_case(g: G) -> BoxedStrategy<HistCase> {
    (hist_case(g, false), prop::collection::vec(any::<u8>(), 1..16))
        .prop_map(|(mut case, choices)| {
            let mut i = 0usize;
            crate::gen::for_attrs_mut(&mut case.doc.blocks, &mut |_, a| {
                let c = choices[i % choices.len()];
                i += 1;
                if c % 3 == 0 {
                    a.style = Some(STYLE_DECLS[(c / 3) as usize % STYLE_DECLS.len()].to_string());
                }
            });
            case.cfg.doc_css = true;
            case
        })
        .boxed()
}

pub fn property() -> Property {
    // ids / anchor names: fragment markers exist only in the line-oriented routes and must not
    // make them differ from the string routes
    let g = G::default().with_ids().with_digit_sup().with_pre_inline();
    let g2 = G::default().with_ids().with_digit_sup().with_pre_inline();
    Property {
        id: "C10",
        level: "exploration",
        rule: "documents (grammar, and byte-mutated) x configurations (standard decorators, option mixes, ASCII custom decorator) x histories of <= 6 renders (route in {string, lines, coloured-identity}, width in {0, tiny, w, w+k, arbitrary; repeats}) executed against ONE render tree built once and cloned per render (sub-check history_styled: style attributes with white-space / colour / display / height declarations on random elements incl. rows and cells, use_doc_css); (sub-check shared_dom: ONE parsed DOM converted several times with different configurations, incl. other CSS sources, each tree rendered with a configuration that has the same CSS sources but possibly other render-time options or decorator; each result equals the one-shot rendering with the rendering configuration); oracle: every result equals a fresh one-shot string_from_read at that width (TooNarrow included), two identical one-shot calls are equal, lines/coloured/staged-coloured one-shot routes equal the string route, free functions equal their config:: spellings. Non-trivial = >= 3 renders over >= 2 distinct widths of a document with a table or list, with a TooNarrow after a successful render; distinct by the whole case.",
        assumptions: vec!["identity colour map for the coloured routes", "histories of at most 6 renders"],
        hang_is_violation: false,
        subs: vec![
            PropSub::new("history", 12_000, 120_000, move || hist_case(g.clone(), false), check_history).with_validity(|c| c.doc.valid() && !c.ops.is_empty()).boxed(),
            PropSub::new("history_styled", 8_000, 80_000, move || styled_hist_case(G::default().with_ids().with_digit_sup().with_pre_inline()), check_history).with_validity(|c| c.doc.valid() && !c.ops.is_empty()).boxed(),
            PropSub::new("shared_dom", 6_000, 60_000, move || shared_dom_case(G::default().with_ids().with_digit_sup().with_pre_inline()), check_shared_dom).with_validity(|c| c.doc.valid() && !c.steps.is_empty() && c.steps.iter().all(|(b, r, _)| b.doc_css == r.doc_css && b.user_css == r.user_css && b.agent_css == r.agent_css && build_time_decorate(b) == build_time_decorate(r))).boxed(),
            PropSub::new("history_mutated", 4_000, 40_000, move || hist_case(g2.clone(), true), check_history).with_validity(|c| c.doc.valid() && !c.ops.is_empty()).boxed(),
            FuzzSub { name: "fuzz_render", target: "fuzz_render", props: &["C10"], seconds: 120 }.boxed(),
        ],
    }
}
