//! Shared pieces of the CSS checks (C17–C20): decorated documents, styled cases.
use crate::cfg::{Ann, CfgSpec};
use crate::cssgen::{self, canonical_css, sheet_to_css, Complex, Decl, Prop, Rule, Sheet, Styling, Variant, CLASSES};
use crate::gen::{self, for_attrs_mut, Doc, G};
use crate::odom::Arena;
use proptest::prelude::*;
use serde::{Deserialize, Serialize};

/// Sprinkle ids (unique "i<k>") and classes over the elements of a document.
/// Returns the number of ids assigned.
pub fn decorate(doc: &mut Doc, choices: &[u8]) -> usize {
    let mut i = 0usize;
    let mut ids = 0usize;
    for_attrs_mut(&mut doc.blocks, &mut |_, a| {
        if choices.is_empty() {
            return;
        }
        let c = choices[i % choices.len()];
        i += 1;
        if c % 4 == 0 {
            if ids > 0 && (c / 64) % 4 == 0 {
                // ids are not always unique in real documents: repeat an earlier one
                a.id = Some(format!("i{}", (c as usize / 16) % ids));
            } else {
                a.id = Some(format!("i{}", ids));
                ids += 1;
            }
        }
        a.class.clear();
        match (c / 4) % 5 {
            0 => {}
            1 => a.class.push(CLASSES[(c / 20) as usize % CLASSES.len()].to_string()),
            2 => {
                a.class.push(CLASSES[(c / 20) as usize % CLASSES.len()].to_string());
                a.class.push(CLASSES[(c / 7) as usize % CLASSES.len()].to_string());
            }
            _ => {}
        }
    });
    ids
}

/// Inline `style` attributes with colour declarations (unique colours from `next_colour`).
pub fn inline_styles(doc: &mut Doc, choices: &[u8], next_colour: &mut u32) {
    let mut i = 0usize;
    for_attrs_mut(&mut doc.blocks, &mut |_, a| {
        if choices.is_empty() {
            return;
        }
        let c = choices[i % choices.len()];
        i += 1;
        if c % 5 != 0 {
            return;
        }
        let mut col = || {
            *next_colour += 1;
            // one inline colour in five is written with rgb()
            if *next_colour % 5 == 2 {
                cssgen::colour_rgb_fn(*next_colour, c / 45)
            } else {
                cssgen::colour_hex(*next_colour)
            }
        };
        let imp = if (c / 5) % 3 == 0 { " !important" } else { "" };
        a.style = Some(match (c / 15) % 3 {
            0 => format!("color:{}{}", col(), imp),
            1 => format!("background-color:{}{}", col(), imp),
            _ => format!("color:{}{};color:{}", col(), imp, col()),
        });
    });
}

#[derive(Clone, Debug, Serialize, Deserialize, PartialEq, Eq, Hash)]
pub struct StyledCase {
    pub doc: Doc,
    pub styling: Styling,
    pub width: usize,
    pub use_doc_css: bool,
    pub variant: Variant,
}

impl StyledCase {
    pub fn html(&self) -> String {
        let mut d = self.doc.clone();
        d.doctype = true;
        d.style_place = self.variant.place;
        let a = &self.styling.author;
        if self.variant.split && a.len() >= 2 {
            // the same rules in the same order, over two <style> elements
            let k = (a.len() + 1) / 2;
            d.style = Some(sheet_to_css(&a[..k].to_vec(), &self.variant));
            d.style2 = Some(sheet_to_css(&a[k..].to_vec(), &self.variant));
            if self.variant.repeat {
                d.style3 = d.style.clone();
            }
        } else {
            d.style = Some(if a.is_empty() { String::new() } else { sheet_to_css(a, &self.variant) });
        }
        d.to_html()
    }
    /// The styling as the cascade sees it: with `repeat` the first half of the author sheet occurs
    /// again after the second half.
    pub fn effective_styling(&self) -> Styling {
        let mut st = self.styling.clone();
        let a = &self.styling.author;
        if self.variant.split && self.variant.repeat && a.len() >= 2 {
            let k = (a.len() + 1) / 2;
            st.author.extend(a[..k].iter().cloned());
        }
        st
    }
    pub fn cfg(&self) -> CfgSpec {
        let mut c = CfgSpec::rich();
        c.doc_css = self.use_doc_css;
        if !self.styling.agent.is_empty() {
            c.agent_css = vec![sheet_to_css(&self.styling.agent, &self.variant)];
        }
        if !self.styling.user.is_empty() {
            c.user_css = vec![canonical_css(&self.styling.user)];
        }
        c
    }
}

/// Colour annotations an element contributes under the reference cascade.
pub fn reference_colours(styling: &Styling, use_doc_css: bool) -> impl Fn(&Arena, usize) -> Vec<Ann> + '_ {
    move |dom, n| {
        let c = cssgen::computed(dom, n, styling, use_doc_css);
        let mut v = vec![];
        if let Some(x) = c.colour {
            v.push(Ann::Colour((x >> 16) as u8, (x >> 8) as u8, x as u8));
        }
        if let Some(x) = c.bg {
            v.push(Ann::BgColour((x >> 16) as u8, (x >> 8) as u8, x as u8));
        }
        v
    }
}

pub fn css_doc_g() -> G {
    let mut g = G::default().no_tables().depth(2);
    g.pre = true;
    g
}

/// A sheet of colour rules with unique colours.
pub fn colour_sheet(max_rules: usize, ids: usize, base_colour: u32) -> BoxedStrategy<Sheet> {
    prop::collection::vec((prop::collection::vec(cssgen::complex(ids), 1..=3), prop::collection::vec((any::<bool>(), prop::bool::weighted(0.25)), 1..=2)), 0..=max_rules)
        .prop_map(move |rules| {
            let mut col = base_colour;
            rules
                .into_iter()
                .map(|(selectors, decls)| Rule {
                    selectors,
                    decls: decls
                        .into_iter()
                        .map(|(bg, important)| {
                            col += 1;
                            Decl { prop: if bg { Prop::BgColor(col) } else { Prop::Color(col) }, important }
                        })
                        .collect(),
                })
                .collect()
        })
        .boxed()
}

pub fn single_rule_sheet(sels: Vec<Complex>, colour: u32) -> Sheet {
    vec![Rule { selectors: sels, decls: vec![Decl { prop: Prop::Color(colour), important: false }] }]
}

pub fn decorated_doc(g: G) -> BoxedStrategy<(Doc, usize)> {
    (gen::doc(&g), prop::collection::vec(any::<u8>(), 1..12))
        .prop_map(|(mut doc, ch)| {
            let ids = decorate(&mut doc, &ch);
            (doc, ids)
        })
        .boxed()
}

/// Minimised cases must stay inside the generated domain: every rule has a selector with at
/// least one compound and at least one declaration.
pub fn complex_valid(s: &Complex) -> bool {
    use crate::cssgen::Part;
    !s.steps.is_empty()
        && s.steps.iter().all(|(_, c)| {
            c.elem.as_ref().map(|e| !e.is_empty() && (e == "*" || e.chars().all(|ch| ch.is_ascii_alphanumeric()))).unwrap_or(true)
                && (c.elem.is_some() || !c.parts.is_empty())
                && c.parts.iter().all(|p| match p {
                    Part::Class(x) | Part::Id(x) => !x.is_empty() && x.chars().all(|ch| ch.is_ascii_alphanumeric()),
                    Part::Nth(_) => true,
                })
        })
}

pub fn styling_valid(st: &Styling) -> bool {
    [&st.agent, &st.user, &st.author]
        .iter()
        .all(|sh| sh.iter().all(|r| !r.selectors.is_empty() && !r.decls.is_empty() && r.selectors.iter().all(complex_valid)))
}
