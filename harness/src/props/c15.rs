//! C15 — layout options are orthogonal and do only what they say.
use super::c03::sanitize_hrefs;
use super::common::*;
use crate::cfg::{render, CfgSpec, Deco, Rend};
use crate::engine::{EnumSub, PropSub, Property, Stats};
use crate::gen::{self, census, label_of, Block, Doc, ITag, Inline, PreTok, COMBINING, G};
use crate::util::{is_border, is_visible, line_width, short};
use proptest::prelude::*;
use serde::{Deserialize, Serialize};
use serde_json::json;

#[derive(Clone, Debug, Serialize, Deserialize, PartialEq, Eq, Hash)]
pub enum Opt {
    MaxWrap(usize),
    Pad,
    StrikeoutOff,
    NoBorders,
    Raw,
    FootnotesOff,
    NoLinkWrap,
    MinWrap(usize),
    Decorate,
}

#[derive(Clone, Debug, Serialize, Deserialize, PartialEq, Eq, Hash)]
pub struct OptCase {
    pub doc: Doc,
    pub width: usize,
    pub base: CfgSpec,
    pub opt: Opt,
}

fn pool_stream(s: &str) -> Vec<char> {
    s.chars().filter(|c| label_of(*c).is_some() || *c == COMBINING).collect()
}

fn sorted(mut v: Vec<char>) -> Vec<char> {
    v.sort();
    v
}

/// Width of the leading block-prefix part of a line (greedy, over-approximating).
pub fn prefix_width(l: &str) -> usize {
    let b: Vec<char> = l.chars().collect();
    let mut i = 0;
    loop {
        let start = i;
        while i < b.len() && b[i] == ' ' {
            i += 1;
        }
        if i + 1 < b.len() && (b[i] == '>' || b[i] == '*') && b[i + 1] == ' ' {
            i += 2;
        } else if i < b.len() && b[i] == '#' {
            let mut j = i;
            while j < b.len() && b[j] == '#' {
                j += 1;
            }
            if j < b.len() && b[j] == ' ' {
                i = j + 1;
            }
        } else if i < b.len() && (b[i].is_ascii_digit() || (b[i] == '-' && i + 1 < b.len() && b[i + 1].is_ascii_digit())) {
            let mut j = i + 1;
            while j < b.len() && b[j].is_ascii_digit() {
                j += 1;
            }
            if j + 1 < b.len() && b[j] == '.' && b[j + 1] == ' ' {
                i = j + 2;
            }
        }
        if i == start {
            break;
        }
    }
    i
}

fn has_blank_pre(v: &[Block]) -> bool {
    v.iter().any(|b| match b {
        Block::Pre(_, lines) => !lines.iter().flatten().any(|t| matches!(t, PreTok::Word(_))),
        Block::Div(_, k) | Block::Quote(_, k) | Block::Wrap(_, _, k) => has_blank_pre(k),
        Block::Ul(_, it) | Block::Ol(_, _, it) => it.iter().any(|x| has_blank_pre(&x.kids)),
        Block::Dl(_, it) => it.iter().any(|x| has_blank_pre(&x.kids)),
        Block::Table(t) => t.rows.iter().flat_map(|r| r.cells.iter()).any(|c| has_blank_pre(&c.kids)),
        _ => false,
    })
}

fn has_decoratable(v: &[Block]) -> bool {
    fn inl(v: &[Inline]) -> bool {
        v.iter().any(|i| match i {
            Inline::El(t, _, k) => matches!(t, ITag::Em | ITag::I | ITag::Ins | ITag::Strong | ITag::Code) || inl(k),
            Inline::A { kids, .. } => inl(kids),
            _ => false,
        })
    }
    v.iter().any(|b| match b {
        Block::P(_, i) | Block::Inl(i) | Block::H(_, _, i) => inl(i),
        Block::Div(_, k) | Block::Quote(_, k) => has_decoratable(k),
        Block::Wrap(t, _, k) => matches!(t, ITag::Em | ITag::I | ITag::Ins | ITag::Strong | ITag::Code) || has_decoratable(k),
        Block::Ul(_, it) | Block::Ol(_, _, it) => it.iter().any(|x| has_decoratable(&x.kids)),
        Block::Dl(_, it) => it.iter().any(|x| x.dt || has_decoratable(&x.kids)),
        Block::Table(t) => t.rows.iter().flat_map(|r| r.cells.iter()).any(|c| has_decoratable(&c.kids)),
        _ => false,
    })
}

fn only_plain_blocks(v: &[Block]) -> bool {
    v.iter().all(|b| match b {
        Block::P(..) | Block::Inl(_) | Block::Pre(..) => true,
        Block::Div(_, k) => only_plain_blocks(k),
        _ => false,
    })
}

fn has_bracket_number(s: &str) -> bool {
    let b: Vec<char> = s.chars().collect();
    let mut i = 0;
    while i < b.len() {
        if b[i] == '[' {
            let mut j = i + 1;
            while j < b.len() && b[j].is_ascii_digit() {
                j += 1;
            }
            if j > i + 1 && j < b.len() && b[j] == ']' {
                return true;
            }
        }
        i += 1;
    }
    false
}

fn d(r: &Rend<String>) -> String {
    match r {
        Rend::Ok(s) => format!("Ok({:?})", short(s, 400)),
        x => format!("{:?}", x.kind()),
    }
}

pub fn check_opt(case: &OptCase, st: &mut Stats) -> Result<(), String> {
    let html = case.doc.to_html();
    let w = case.width;
    let base = case.base.clone();
    let mut with = base.clone();
    let c = census(&case.doc.blocks);
    let mut applies: bool;
    match &case.opt {
        Opt::MaxWrap(m) => {
            with.max_wrap = Some(*m);
            applies = *m < w;
        }
        Opt::Pad => {
            with.pad = true;
            applies = true;
        }
        Opt::StrikeoutOff => {
            with.strikeout = Some(false);
            applies = c.strikes > 0;
        }
        Opt::NoBorders => {
            with.no_borders = true;
            applies = c.tables > 0;
        }
        Opt::Raw => {
            with.raw = true;
            applies = c.tables > 0;
        }
        Opt::FootnotesOff => {
            with.footnotes = Some(false);
            applies = c.links > 0;
        }
        Opt::NoLinkWrap => {
            with.no_link_wrap = true;
            applies = c.links > 0 && base.footnotes_on();
        }
        Opt::MinWrap(k) => {
            with.min_wrap = Some(*k);
            applies = !only_plain_blocks(&case.doc.blocks);
        }
        Opt::Decorate => {
            with.decorate = true;
            // (a stray <dt> from a literal-markup leaf is emphasised as well)
            applies = has_decoratable(&case.doc.blocks) || html.contains("<dt");
        }
    }
    if with == base || base_has(&base, &case.opt) {
        st.class("option_already_in_base");
        return Ok(());
    }
    let name = format!("{:?}", case.opt).split('(').next().unwrap().to_string();
    st.sample(|| json!({"html": short(&html, 300), "width": w, "base": cfg_brief(&base), "option": format!("{:?}", case.opt)}));
    let a = render(&base, html.as_bytes(), w);
    let b = render(&with, html.as_bytes(), w);
    for r in [&a, &b] {
        if let Some(x) = r.bad() {
            return Err(format!("{}\nhtml={}", x, short(&html, 800)));
        }
    }
    // With allow_width_overflow a block can be wider than the requested width; a maximum wrap
    // width then "is at least the width" when it is at least the widest line of the base rendering.
    if let (Opt::MaxWrap(m), true, Rend::Ok(s)) = (&case.opt, base.overflow, &a) {
        let widest = s.lines().map(line_width).max().unwrap_or(0);
        applies = *m < w.max(widest);
    }
    let ctx = |what: &str| -> String {
        format!(
            "{} (option {:?}, w={}, base={})\n without={}\n with   ={}\nhtml={}",
            what,
            case.opt,
            w,
            cfg_brief(&base),
            d(&a),
            d(&b),
            short(&html, 900)
        )
    };
    st.class(&format!("{}:{}", name, if applies { "applies" } else { "does_not_apply" }));
    if applies {
        st.nontrivial(case);
    }
    // options that do not apply leave the result unchanged (MaxWrap/MinWrap/Pad have their own rule)
    if !applies && !matches!(case.opt, Opt::Pad) {
        if a != b {
            return Err(ctx("an option that does not apply to the document changed the result"));
        }
        return Ok(());
    }
    match &case.opt {
        Opt::MaxWrap(m) => {
            // m < w here
            if let Rend::Ok(s) = &b {
                if base.overflow {
                    // lines may exceed any bound where a block overflows; only "m >= w changes nothing" is asserted
                    st.class("MaxWrap:overflow_base(bound not asserted)");
                } else if c.tables == 0 && !base.pad && !base.footnotes_on() {
                    for l in s.lines() {
                        let lw = line_width(l);
                        let pw = prefix_width(l);
                        if lw > pw + *m {
                            return Err(ctx(&format!("a text line exceeds max_wrap_width {} beyond its prefix ({} columns of prefix): {:?}", m, pw, l)));
                        }
                    }
                }
                if let [Block::P(..)] = case.doc.blocks.as_slice() {
                    if !base.footnotes_on() && !base.pad && !base.overflow {
                        let r = render(&base, html.as_bytes(), (*m).min(w));
                        if r != b {
                            return Err(ctx(&format!("a single paragraph under max_wrap_width({}) differs from rendering at width {}: {}", m, (*m).min(w), d(&r))));
                        }
                    }
                }
            }
        }
        Opt::Pad => {
            if has_blank_pre(&case.doc.blocks) {
                st.exclude("KF-C15-blank-pre-pad");
                return Ok(());
            }
            match (&a, &b) {
                (Rend::Ok(x), Rend::Ok(y)) => {
                    let tx: Vec<&str> = x.lines().map(|l| l.trim_end()).collect();
                    let ty: Vec<&str> = y.lines().map(|l| l.trim_end()).collect();
                    if tx != ty {
                        return Err(ctx("pad_block_width changed more than trailing spaces"));
                    }
                    if !base.overflow {
                        for l in y.lines() {
                            if line_width(l) > w {
                                return Err(ctx(&format!("padded line wider than the width: {:?}", l)));
                            }
                        }
                    }
                }
                (Rend::TooNarrow, Rend::TooNarrow) => {}
                _ => return Err(ctx("pad_block_width changed whether rendering succeeds")),
            }
        }
        Opt::StrikeoutOff => match (&a, &b) {
            (Rend::Ok(x), Rend::Ok(y)) => {
                let x2: String = x.chars().filter(|c| *c != '\u{336}').collect();
                if &x2 != y {
                    return Err(ctx("unicode_strikeout(false) is not the strikeout output minus U+0336"));
                }
                if y.contains('\u{336}') {
                    return Err(ctx("U+0336 present with unicode_strikeout(false)"));
                }
            }
            (Rend::TooNarrow, Rend::TooNarrow) => {}
            _ => return Err(ctx("unicode_strikeout changed whether rendering succeeds")),
        },
        Opt::NoBorders | Opt::Raw => {
            if let Rend::Ok(y) = &b {
                if let Some(ch) = y.chars().find(|c| is_border(*c)) {
                    return Err(ctx(&format!("box-drawing character {:?} although borders are disabled", ch)));
                }
                if let Rend::Ok(x) = &a {
                    let sx = sorted(pool_stream(x));
                    let sy = sorted(pool_stream(y));
                    if case.opt == Opt::NoBorders {
                        if sx != sy {
                            return Err(ctx("no_table_borders changed the text"));
                        }
                    } else {
                        // raw mode renders every cell (cells of zero-width columns included)
                        let mut j = 0;
                        for ch in &sx {
                            while j < sy.len() && sy[j] < *ch {
                                j += 1;
                            }
                            if j >= sy.len() || sy[j] != *ch {
                                return Err(ctx(&format!("raw_mode lost text character {:?}", ch)));
                            }
                            j += 1;
                        }
                    }
                }
            }
        }
        Opt::FootnotesOff => {
            if let Rend::Ok(y) = &b {
                if has_bracket_number(y) {
                    return Err(ctx("a [k] reference or footnote entry although footnotes are disabled"));
                }
                if let Rend::Ok(x) = &a {
                    let (sx, sy) = (pool_stream(x), pool_stream(y));
                    let same = if c.tables == 0 { sx == sy } else { sorted(sx) == sorted(sy) };
                    if !same {
                        return Err(ctx("link_footnotes(false) changed the text"));
                    }
                }
            }
        }
        Opt::NoLinkWrap => {
            if a == b {
                st.class("NoLinkWrap:identical_output");
            } else if let (Rend::Ok(x), Rend::Ok(y)) = (&a, &b) {
                let ly: Vec<&str> = y.lines().collect();
                // trailing block of the unwrapped output: [1]: .., [2]: .., ...
                let mut n = 0;
                while n < ly.len() {
                    let k = ly.len() - n; // candidate count
                    if (0..k).all(|i| ly[n + i].starts_with(&format!("[{}]: ", i + 1))) {
                        break;
                    }
                    n += 1;
                }
                if n == ly.len() {
                    return Err(ctx("no_link_wrapping: no trailing footnote block of unbroken `[k]: target` lines"));
                }
                let lx: Vec<&str> = x.lines().collect();
                if lx.len() < n || lx[..n] != ly[..n] {
                    return Err(ctx("no_link_wrapping changed the body"));
                }
                if lx[n..].concat() != ly[n..].concat() {
                    return Err(ctx("no_link_wrapping changed the footnote text"));
                }
            } else {
                return Err(ctx("no_link_wrapping changed whether rendering succeeds"));
            }
        }
        Opt::MinWrap(_) => {}
        Opt::Decorate => {
            if let (Rend::Ok(x), Rend::Ok(y)) = (&a, &b) {
                let (sx, sy) = (pool_stream(x), pool_stream(y));
                let same = if c.tables == 0 { sx == sy } else { sorted(sx) == sorted(sy) };
                if !same {
                    return Err(ctx("do_decorate changed the text"));
                }
                let count = |s: &str| {
                    let mut m = std::collections::BTreeMap::new();
                    for ch in s.chars().filter(|c| is_visible(*c) && label_of(*c).is_none() && *c != '*' && *c != '`' && *c != '\u{336}' && *c != '#' && *c != '>' && *c != '.' && *c != '-' && !c.is_ascii_digit() && !is_border(*c)) {
                        *m.entry(ch).or_insert(0usize) += 1;
                    }
                    m
                };
                // a link without any text renders nothing - until the markers of an empty <em> / <code>
                // inside it give it content, and with it its brackets and reference
                let textless_link = {
                    let dom = crate::odom::parse(html.as_bytes());
                    let r = dom.elements().any(|n| dom.name(n) == Some("a") && dom.attr(n, "href").is_some() && !dom.has_visible_text(n));
                    r
                };
                if textless_link {
                    st.class("Decorate:textless_link(marker count not asserted)");
                } else if c.tables == 0 && count(x) != count(y) {
                    return Err(ctx("do_decorate added something other than `*` and backquote markers"));
                }
            }
        }
    }
    Ok(())
}

/// Explicit padding relation on raw HTML (regressions and the known finding; nothing excluded).
#[derive(Clone, Debug, Serialize, Deserialize, PartialEq, Eq, Hash)]
pub struct PadCase {
    pub html: String,
    pub width: usize,
    pub base: CfgSpec,
}

pub fn check_pad_explicit(case: &PadCase, _st: &mut Stats) -> Result<(), String> {
    let mut with = case.base.clone();
    with.pad = true;
    let a = render(&case.base, case.html.as_bytes(), case.width);
    let b = render(&with, case.html.as_bytes(), case.width);
    match (&a, &b) {
        (Rend::Ok(x), Rend::Ok(y)) => {
            let tx: Vec<&str> = x.lines().map(|l| l.trim_end()).collect();
            let ty: Vec<&str> = y.lines().map(|l| l.trim_end()).collect();
            if tx != ty {
                return Err(format!("pad_block_width changed more than trailing spaces (w={})\n html={:?}\n without={:?}\n with   ={:?}", case.width, case.html, x, y));
            }
            Ok(())
        }
        (Rend::TooNarrow, Rend::TooNarrow) => Ok(()),
        _ => Err(format!("pad_block_width changed whether rendering succeeds: {:?} vs {:?}", a.kind(), b.kind())),
    }
}

fn pad_regressions() -> Vec<PadCase> {
    let p = |h: &str, w: usize| PadCase { html: h.into(), width: w, base: CfgSpec::plain() };
    vec![
        p("<p>a b</p><pre>x  y</pre><p>c</p>", 10),
        p("<ul><li>a<li><pre>q\n\nr</pre></ul><p>z</p>", 8),
        p("<table><tr><td>a</td><td>b c d</td></tr></table><p>after</p>", 7),
    ]
}

fn base_has(base: &CfgSpec, opt: &Opt) -> bool {
    match opt {
        Opt::MaxWrap(_) => base.max_wrap.is_some(),
        Opt::Pad => base.pad,
        Opt::StrikeoutOff => base.strikeout.is_some(),
        Opt::NoBorders => base.no_borders || base.raw,
        Opt::Raw => base.raw,
        Opt::FootnotesOff => !base.footnotes_on(),
        Opt::NoLinkWrap => base.no_link_wrap,
        Opt::MinWrap(_) => base.min_wrap.is_some(),
        Opt::Decorate => base.decorate || base.deco == Deco::Plain,
    }
}

fn opt_case(g: G) -> BoxedStrategy<OptCase> {
    let base = prop_oneof![
        3 => deco_std().prop_map(CfgSpec::of),
        2 => cfg_bounded().prop_map(|mut c| { c.min_wrap = None; c }),
        // bases with allow_width_overflow and a minimum wrap width: blocks can be wider than the width
        1 => (cfg_bounded(), prop::option::weighted(0.6, 0usize..14)).prop_map(|(mut c, k)| { c.overflow = true; c.min_wrap = k; c }),
    ];
    let opt = prop_oneof![
        2 => (1usize..130).prop_map(Opt::MaxWrap),
        2 => Just(Opt::Pad),
        1 => Just(Opt::StrikeoutOff),
        1 => Just(Opt::NoBorders),
        1 => Just(Opt::Raw),
        1 => Just(Opt::FootnotesOff),
        1 => Just(Opt::NoLinkWrap),
        1 => (0usize..12).prop_map(Opt::MinWrap),
        1 => Just(Opt::Decorate),
    ];
    (gen::doc(&g), 1usize..=100, base, opt)
        .prop_map(|(mut doc, width, mut base, opt)| {
            sanitize_hrefs(&mut doc.blocks);
            // make the option meaningful against the base
            match opt {
                Opt::FootnotesOff | Opt::NoLinkWrap => {
                    if !base.footnotes_on() {
                        base.footnotes = Some(true);
                    }
                }
                Opt::StrikeoutOff => base.strikeout = None,
                Opt::Decorate => {
                    if base.deco == Deco::Plain {
                        base.deco = Deco::PlainNoDecorate;
                    }
                    base.decorate = false;
                }
                Opt::MaxWrap(_) => base.max_wrap = None,
                Opt::Pad => base.pad = false,
                Opt::NoBorders => {
                    base.no_borders = false;
                    base.raw = false;
                }
                Opt::Raw => base.raw = false,
                Opt::MinWrap(_) => base.min_wrap = None,
            }
            if matches!(opt, Opt::NoLinkWrap) {
                base.no_link_wrap = false;
            }
            OptCase { doc, width, base, opt }
        })
        .boxed()
}

pub fn property() -> Property {
    // ids: a fragment marker at the start of a block must not switch an option off for that block
    let g = G::default().with_ids().with_digit_sup();
    Property {
        id: "C15",
        level: "exploration",
        rule: "grammar documents x width 1..=100 x base configuration (standard decorator, optionally further options) x one option o in {max_wrap_width(m), pad_block_width, unicode_strikeout(false), no_table_borders, raw_mode, link_footnotes(false), no_link_wrapping, min_wrap_width(k), do_decorate}; oracle: the stated metamorphic relation between render(d,w,base) and render(d,w,base+o): identical result when the option does not apply (no table / link / strikeout / decoratable element, m >= w, only plain blocks); m < w: every text line <= prefix + m on table-free documents and single paragraphs equal rendering at min(m,w); padding: equal after right-trim, same Ok/TooNarrow, padded lines <= w; strikeout(false) = output minus U+0336; no borders / raw: no box-drawing character, same (raw: superset) text multiset; footnotes off: no [k], same text; no_link_wrapping: same body, unbroken `[k]: target` lines with the same text; do_decorate: same text, only `*`/backquote added. Non-trivial = the option applies to the document (both classes counted per option); distinct by the whole case.",
        assumptions: vec!["link targets made of digits/punctuation so that footnotes never contain pool characters", "prefix parser over-approximates the prefix of a line (sound for the max_wrap bound)"],
        hang_is_violation: false,
        subs: vec![
            EnumSub::new("pad_explicit", false, |_| pad_regressions(), check_pad_explicit).boxed(),
            PropSub::new("relations", 60_000, 600_000, move || opt_case(g.clone()), check_opt).with_validity(|c| c.doc.valid() && !base_has(&c.base, &c.opt)).boxed(),
        ],
    }
}
