pub mod common;
pub mod c02;

use crate::engine::Property;

pub fn all_ids() -> Vec<&'static str> {
    vec!["C02"]
}

pub fn get(id: &str) -> Option<Property> {
    match id {
        "C02" => Some(c02::property()),
        _ => None,
    }
}
