pub mod common;
pub mod c01;
pub mod c02;
pub mod c03;
pub mod c04;
pub mod c05;
pub mod c06;
pub mod c07;
pub mod c08;
pub mod c09;
pub mod regtable;
pub mod c10;
pub mod c11;
pub mod c12;
pub mod c13;
pub mod c14;
pub mod c15;
pub mod c16;
pub mod c17;
pub mod c18;
pub mod c19;
pub mod c20;
pub mod csscommon;
pub mod fuzzsub;

use crate::engine::Property;

pub fn all_ids() -> Vec<&'static str> {
    vec!["C01", "C02", "C03", "C04", "C05", "C06", "C07", "C08", "C09", "C10", "C11", "C12", "C13", "C14", "C15", "C16", "C17", "C18", "C19", "C20"]
}

pub fn get(id: &str) -> Option<Property> {
    match id {
        "C01" => Some(c01::property()),
        "C02" => Some(c02::property()),
        "C03" => Some(c03::property()),
        "C04" => Some(c04::property()),
        "C05" => Some(c05::property()),
        "C06" => Some(c06::property()),
        "C07" => Some(c07::property()),
        "C08" => Some(c08::property()),
        "C09" => Some(c09::property()),
        "C10" => Some(c10::property()),
        "C11" => Some(c11::property()),
        "C12" => Some(c12::property()),
        "C13" => Some(c13::property()),
        "C14" => Some(c14::property()),
        "C15" => Some(c15::property()),
        "C16" => Some(c16::property()),
        "C17" => Some(c17::property()),
        "C18" => Some(c18::property()),
        "C19" => Some(c19::property()),
        "C20" => Some(c20::property()),
        _ => None,
    }
}
