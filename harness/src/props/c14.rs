//! C14 — every id with visible content yields one fragment marker at its content.
use super::common::cfg_brief;
use crate::cfg::{render, render_lines, CfgSpec, OElem, Rend};
use crate::engine::{EnumSub, PropSub, Property, Stats};
use crate::gen::{self, label_of, Block, Doc, G};
use crate::odom::{self, Arena};
use crate::util::{is_visible, short};
use proptest::prelude::*;
use serde::{Deserialize, Serialize};
use serde_json::json;
use std::collections::{HashMap, HashSet};

#[derive(Clone, Debug, Serialize, Deserialize, PartialEq, Eq, Hash)]
pub struct FragCase {
    pub doc: Doc,
    pub width: usize,
    pub rich: bool,
    #[serde(default)]
    pub overflow: bool,
    #[serde(default)]
    pub pad: bool,
}

#[derive(Debug, Clone)]
enum Ev {
    Text(usize, usize, usize), // label, line, number of document characters before it on the line
    Frag(String, usize),
}

fn scope_of(dom: &Arena, n: usize) -> usize {
    for a in dom.ancestors(n) {
        if matches!(dom.name(a), Some("td" | "th")) {
            return a;
        }
    }
    0
}


const INLINE_TAGS: &[&str] = &["span", "em", "strong", "b", "i", "u", "a", "code", "s", "del", "strike", "ins", "font", "small", "big", "tt", "sup", "sub", "abbr", "cite", "q", "kbd", "var", "samp", "mark"];

fn preorder(dom: &Arena, root: usize) -> Vec<usize> {
    let mut out = vec![];
    let mut stack = vec![root];
    while let Some(n) = stack.pop() {
        out.push(n);
        for &c in dom.children(n).iter().rev() {
            stack.push(c);
        }
    }
    out
}

/// Are the text nodes `p` (earlier) and `f` (later) part of one run of inline content - only inline
/// elements on the way up to their common ancestor and between them, no <br>, no image, not inside
/// <pre>?  Then a line break between them can only come from word wrapping.
fn same_inline_run(dom: &Arena, p: usize, f: usize) -> bool {
    let pa = dom.ancestors(p);
    let fa = dom.ancestors(f);
    let Some(&lca) = pa.iter().find(|a| fa.contains(a)) else { return false };
    let inline = |n: usize| matches!(dom.name(n), Some(t) if INLINE_TAGS.contains(&t));
    if !pa.iter().take_while(|a| **a != lca).all(|a| inline(*a)) || !fa.iter().take_while(|a| **a != lca).all(|a| inline(*a)) {
        return false;
    }
    if std::iter::once(lca).chain(dom.ancestors(lca)).any(|a| dom.name(a) == Some("pre")) {
        return false;
    }
    let order = preorder(dom, lca);
    let (Some(ip), Some(jf)) = (order.iter().position(|n| *n == p), order.iter().position(|n| *n == f)) else { return false };
    order[ip + 1..jf].iter().all(|n| !dom.is_elem(*n) || (inline(*n) && !dom.is_ignored_elem(*n)))
}

fn in_subtree(dom: &Arena, n: usize, root: usize) -> bool {
    n == root || dom.ancestors(n).contains(&root)
}

/// KF-C14-first-cell-empty: an id on table / thead / tbody / tr is attached to the first cell of
/// the first row; if that cell is skipped (no text) the marker is lost.
fn first_cell_has_text(dom: &Arena, e: usize) -> bool {
    // first tr in the subtree (document order), first td/th in it
    let mut stack = vec![e];
    while let Some(n) = stack.pop() {
        if dom.name(n) == Some("tr") {
            for &c in dom.children(n) {
                if matches!(dom.name(c), Some("td" | "th")) {
                    return dom.has_visible_text(c);
                }
            }
            return false;
        }
        for &c in dom.children(n).iter().rev() {
            stack.push(c);
        }
    }
    false
}

pub fn check_html(html: &str, html_noids: Option<&str>, width: usize, rich: bool, st: &mut Stats, exclude_known: bool) -> Result<bool, String> {
    check_html_cfg(html, html_noids, width, rich, (false, false), st, exclude_known)
}

pub fn check_html_cfg(html: &str, html_noids: Option<&str>, width: usize, rich: bool, (overflow, pad): (bool, bool), st: &mut Stats, exclude_known: bool) -> Result<bool, String> {
    let mut cfg = if rich { CfgSpec::rich() } else { CfgSpec::plain() };
    cfg.overflow = overflow;
    cfg.pad = pad;
    let dom = odom::parse(html.as_bytes());
    let r = render_lines(&cfg, html.as_bytes(), width);
    if let Some(b) = r.bad() {
        return Err(format!("{}\nhtml={}", b, short(html, 800)));
    }
    let show = |m: String| format!("{} (w={}, cfg={})\nhtml={}", m, width, cfg_brief(&cfg), short(html, 1200));
    // (iii) markers never change the text
    if let Some(plain_html) = html_noids {
        let a = render(&cfg, html.as_bytes(), width);
        let b = render(&cfg, plain_html.as_bytes(), width);
        if a != b {
            return Err(show(format!("string output changes when ids are removed: {:?} vs {:?}", a.as_ok().map(|s| short(s, 300)), b.as_ok().map(|s| short(s, 300)))));
        }
    }
    let Rend::Ok(lines) = r else {
        st.class("toonarrow");
        return Ok(false);
    };
    let mut events: Vec<Ev> = vec![];
    for (y, l) in lines.iter().enumerate() {
        let mut before = 0;
        for e in l {
            match e {
                OElem::Str(s, _) => {
                    for c in s.chars() {
                        if let Some(lab) = label_of(c) {
                            events.push(Ev::Text(lab, y, before));
                            before += 1;
                        }
                    }
                }
                OElem::Frag(n) => events.push(Ev::Frag(n.clone(), y)),
            }
        }
    }
    // text items: label -> (item index, scope)
    let items = dom.text_items();
    let mut label_item: HashMap<usize, usize> = HashMap::new();
    for (i, (_, t)) in items.iter().enumerate() {
        for c in t.chars().filter(|c| is_visible(*c)) {
            if let Some(l) = label_of(c) {
                label_item.insert(l, i);
            }
        }
    }
    let item_scope: Vec<usize> = items.iter().map(|(n, _)| scope_of(&dom, *n)).collect();
    let item_visible: Vec<bool> = items.iter().map(|(_, t)| t.chars().any(is_visible)).collect();
    let mut nontrivial = false;
    let mut seen_names: HashSet<String> = HashSet::new();
    // (element, position of its marker in the event stream) for every checked id
    let mut placed: Vec<(usize, usize)> = vec![];
    for e in dom.elements() {
        let name = match dom.attr(e, "id") {
            Some(i) => Some(i.to_string()),
            None => {
                if dom.name(e) == Some("a") {
                    dom.attr(e, "name").map(|s| s.to_string())
                } else {
                    None
                }
            }
        };
        let Some(name) = name else { continue };
        if dom.name(e) == Some("a") && dom.attr(e, "id").is_some() && dom.attr(e, "name").is_some() {
            st.class("anchor_with_both_id_and_name(skipped)");
            continue;
        }
        if !seen_names.insert(name.clone()) {
            continue; // duplicate ids are outside the generated domain
        }
        let count = events.iter().filter(|ev| matches!(ev, Ev::Frag(n, _) if *n == name)).count();
        if !dom.has_visible_text(e) {
            st.class("id_without_visible_text(tolerated)");
            continue;
        }
        // KF-C03-starved-cell: a cell whose text is dropped by the layout cannot show its marker either
        if exclude_known {
            let in_starved_table = std::iter::once(e).chain(dom.ancestors(e)).any(|a| dom.name(a) == Some("table") && crate::tablegeo::geometry_of_dom(&dom, a).has_starved_risk());
            if in_starved_table {
                st.exclude("KF-C03-starved-cell");
                continue;
            }
        }
        if matches!(dom.name(e), Some("table" | "thead" | "tbody" | "tfoot" | "tr")) && !first_cell_has_text(&dom, e) {
            if exclude_known {
                st.exclude("KF-C14-first-cell-empty");
                continue;
            }
        }
        if count != 1 {
            return Err(show(format!("id {:?} on <{}> with visible text has {} fragment markers (expected 1)", name, dom.name(e).unwrap_or("?"), count)));
        }
        let pos = events.iter().position(|ev| matches!(ev, Ev::Frag(n, _) if *n == name)).unwrap();
        let Ev::Frag(_, marker_line) = events[pos].clone() else { unreachable!() };
        placed.push((e, pos));
        // items of e's subtree and the first visible one
        let own: Vec<usize> = (0..items.len()).filter(|i| in_subtree(&dom, items[*i].0, e)).collect();
        let Some(&first) = own.iter().find(|i| item_visible[**i]) else { continue };
        let escope = scope_of(&dom, e);
        let own_scope = item_scope[first];
        let mut first_own_line: Option<(usize, usize)> = None;
        for (k, ev) in events.iter().enumerate() {
            let Ev::Text(lab, y, before) = ev else { continue };
            let Some(&it) = label_item.get(lab) else { continue };
            let is_own = own.contains(&it);
            if is_own && item_scope[it] == own_scope {
                if first_own_line.is_none() && it == first {
                    first_own_line = Some((*y, *before));
                }
                if k < pos {
                    return Err(show(format!("marker {:?} comes after text of its own element <{}> (character of text node {} on line {})", name, dom.name(e).unwrap_or("?"), lab, y)));
                }
            } else if !is_own && it < first && item_scope[it] == escope && k > pos {
                return Err(show(format!("marker {:?} of <{}> comes before text that precedes the element (text node {} on line {})", name, dom.name(e).unwrap_or("?"), lab, y)));
            }
        }
        // same line as the element's first character unless the element starts with a forced break
        let starts_with_break = {
            // a <br> inside e before its first visible text
            let first_node = items[first].0;
            let mut found = false;
            let mut stack = vec![e];
            let mut order: Vec<usize> = vec![];
            while let Some(n) = stack.pop() {
                order.push(n);
                for &c in dom.children(n).iter().rev() {
                    stack.push(c);
                }
            }
            for n in order {
                if n == first_node {
                    break;
                }
                if dom.name(n) == Some("br") {
                    found = true;
                }
            }
            found
        };
        if let Some((fl, before)) = first_own_line {
            let blockish = matches!(
                dom.name(e),
                Some("p" | "li" | "dd" | "dt" | "dl" | "div" | "blockquote" | "td" | "th" | "h1" | "h2" | "h3" | "h4" | "h5" | "h6" | "pre" | "ul" | "ol" | "table" | "thead" | "tbody" | "tfoot" | "tr")
            );
            // characters of the same scope before the first own character on its line
            let before = {
                let _ = before;
                let mut n = 0;
                for ev in events.iter() {
                    if let Ev::Text(lab, y, _) = ev {
                        if *y == fl {
                            if let Some(&it) = label_item.get(lab) {
                                if it == first {
                                    break;
                                }
                                if item_scope[it] == own_scope {
                                    n += 1;
                                }
                            }
                        }
                    }
                }
                n
            };
            if !starts_with_break && own_scope == escope && (fl != marker_line || before == 0) {
                let _ = blockish;
                // Text of e before its first visible character (white space: the wrap point may lie
                // between the marker and the character; zero-width characters may stay behind).
                let lead_in_e: usize = own.iter().take_while(|i| **i != first).map(|i| items[*i].1.chars().count()).sum::<usize>()
                    + items[first].1.chars().take_while(|c| label_of(*c).is_none() || !is_visible(*c)).count();
                // the visible text item of the same scope preceding the element, if any
                let prev = (0..first).rev().find(|i| item_visible[*i] && item_scope[*i] == own_scope && !own.contains(i));
                // no decoration text (`*`, `[`, `^{`, `#`, ...) is rendered between the marker and the first
                // character, which could be wrapped apart from it
                let fnode = items[first].0;
                let neutral = |a: usize, blocks_too: bool| match dom.name(a) {
                    Some("span" | "u" | "font" | "ins" | "s" | "del" | "strike") => true,
                    Some("em" | "i" | "strong" | "b" | "code") => rich,
                    Some("a") => rich || dom.attr(a, "href").is_none(),
                    Some("p" | "div" | "ul" | "ol" | "li" | "blockquote" | "dl" | "dd" | "pre" | "table" | "thead" | "tbody" | "tfoot" | "tr" | "td" | "th" | "h1" | "h2" | "h3" | "h4" | "h5" | "h6") => blocks_too,
                    Some("dt") => blocks_too && rich,
                    _ => false,
                };
                // everything inside e before its first character is an element without decoration
                let inner_plain = |blocks_too: bool| !dom.is_elem(fnode) && preorder(&dom, e).iter().skip(1).take_while(|n| **n != fnode).all(|n| neutral(*n, blocks_too));
                // an inline element whose content starts with a block starts with a forced break
                let wrapped_only = if neutral(e, false) { inner_plain(false) } else { neutral(e, true) && inner_plain(true) };
                if before == 0 && lead_in_e > 0 {
                    st.class("same-line not asserted: white space / zero-width text between the marker and the element's first character");
                } else if before == 0 && !wrapped_only {
                    st.class("same-line not asserted: decoration text or a block start between the marker and the element's first character");
                } else if fl == marker_line {
                    st.class(if prev.is_some() { "same_line_held_for_element_starting_a_line" } else { "same_line_held_for_first_element_of_its_scope" });
                } else {
                    return Err(show(format!("marker {:?} of <{}> is on line {} but the element's first character is on line {}", name, dom.name(e).unwrap_or("?"), marker_line, fl)));
                }
            }
            if escope != 0 || matches!(dom.name(e), Some("li" | "dd" | "td" | "th")) || dom.ancestors(e).iter().any(|a| matches!(dom.name(*a), Some("li" | "blockquote" | "dd" | "td" | "th"))) {
                nontrivial = true;
            }
        }
    }
    // markers of nested elements appear in document order: the outer element's first
    for (i, (e1, p1)) in placed.iter().enumerate() {
        for (e2, p2) in placed.iter().skip(i + 1) {
            let (outer, inner, po, pi) = if in_subtree(&dom, *e2, *e1) { (*e1, *e2, *p1, *p2) } else if in_subtree(&dom, *e1, *e2) { (*e2, *e1, *p2, *p1) } else { continue };
            if scope_of(&dom, outer) != scope_of(&dom, inner) {
                continue;
            }
            st.class("nested_ids_order_checked");
            if po > pi {
                return Err(show(format!(
                    "markers of nested elements are out of document order: <{} id={:?}> contains <{} id={:?}> but its marker comes later",
                    dom.name(outer).unwrap_or("?"), dom.attr(outer, "id").or(dom.attr(outer, "name")), dom.name(inner).unwrap_or("?"), dom.attr(inner, "id").or(dom.attr(inner, "name"))
                )));
            }
        }
    }
    Ok(nontrivial)
}

pub fn check_frags(case: &FragCase, st: &mut Stats) -> Result<(), String> {
    let (html, nlabels) = case.doc.to_html_n();
    if nlabels > gen::max_labels() {
        st.class("skipped_too_many_text_nodes");
        return Ok(());
    }
    let mut plain = case.doc.clone();
    gen::strip_ids(&mut plain.blocks);
    let html_noids = plain.to_html();
    st.sample(|| json!({"html": short(&html, 400), "width": case.width, "rich": case.rich}));
    let nt = check_html_cfg(&html, Some(&html_noids), case.width, case.rich, (case.overflow, case.pad), st, true)?;
    if nt {
        st.nontrivial(case);
        st.nt_sample(|| json!({"html": short(&html, 400), "width": case.width}));
    }
    Ok(())
}

#[derive(Clone, Debug, Serialize, Deserialize, PartialEq, Eq, Hash)]
pub struct ExplicitFrag {
    pub html: String,
    pub width: usize,
    #[serde(default)]
    pub overflow: bool,
    /// the same document without its ids / names (for "markers never change the text")
    #[serde(default)]
    pub noids: Option<String>,
    /// the input is also in a known-finding class (which is then not asserted)
    #[serde(default)]
    pub lenient: bool,
}

pub fn check_explicit(case: &ExplicitFrag, st: &mut Stats) -> Result<(), String> {
    check_html_cfg(&case.html, case.noids.as_deref(), case.width, false, (case.overflow, false), st, case.lenient).map(|_| ())
}

fn explicit_items() -> Vec<ExplicitFrag> {
    let e = |h: &str, w: usize| ExplicitFrag { html: h.into(), width: w, overflow: false, noids: None, lenient: false };
    let o = |h: &str, n: &str| ExplicitFrag { html: h.into(), width: 1, overflow: true, noids: Some(n.into()), lenient: false };
    vec![
        // fixed by 97e9be7 (overflowing wide characters, markers and combining marks at width 1)
        o("<p>\u{4e00}</p><em id=\"i0\">b</em>", "<p>\u{4e00}</p><em>b</em>"),
        o("<p>\u{4e00}</p><em id=\"i0\"><p>b</p></em>", "<p>\u{4e00}</p><em><p>b</p></em>"),
        o("<p><s>\u{4e00}<a id=\"\">\u{4e01}</a></s></p>", "<p><s>\u{4e00}<a>\u{4e01}</a></s></p>"),
        o("<p>\u{4e00}\u{301}<span id=\"\">\u{4e01}</span></p>", "<p>\u{4e00}\u{301}<span>\u{4e01}</span></p>"),
        o("\u{4e00}<u id=\"\">\u{301}b</u>", "\u{4e00}<u>\u{301}b</u>"),
        // fixed by c2083a6 (markers recorded after a finished block; was KF-C14-marker-line)
        e("<p>a</p><div id=\"i0\">b</div>", 20),
        e("<p>a</p><span id=\"x\">b</span>", 20),
        e("<p>a</p><dl id=\"d\"><dt>t</dt></dl>", 20),
        e("<ul><li>a</li></ul><a name=\"n\">b</a>", 20),
        // fixed by 894454a (marker stays with a piece hard-wrapped onto a new line)
        e("<p>ab<a id=\"x\">cd</a></p>", 2),
        e("<p>ab<span id=\"x\"><u>cd</u>ef</span></p>", 2),
        e("<p id=x>hhhhhhhh b</p>", 5),
        e("<p>a <span id=s>b</span> c</p><ul id=u><li id=l>d</li></ul>", 4),
        e("<table id=t><tr id=r><td id=c>e</td><td>f</td></tr></table><h2 id=h>g</h2>", 20),
        e("<p><a name=n>i</a> j <em id=m>k</em></p><pre id=q>l</pre><blockquote id=b><p>o</p></blockquote>", 3),
    ]
}

fn frag_case() -> BoxedStrategy<FragCase> {
    let g = G::default().depth(2).with_ids();
    (gen::doc(&g), prop_oneof![3 => 1usize..=100, 2 => 1usize..=8], any::<bool>(), prop::bool::weighted(0.25), prop::bool::weighted(0.2))
        .prop_map(|(mut doc, width, rich, overflow, pad)| {
            drop_id_on_named_anchors(&mut doc.blocks);
            // KF-C13-invisible-block: an id keeps an otherwise empty block alive and changes the text
            gen::ensure_runs_visible(&mut doc.blocks);
            unlink_invisible(&mut doc.blocks);
            super::c03::sanitize_hrefs(&mut doc.blocks);
            FragCase { doc, width, rich, overflow, pad }
        })
        .boxed()
}

/// An `<a>` carries either a name or an id, not both (which one wins is unspecified).
fn drop_id_on_named_anchors(blocks: &mut [Block]) {
    fn inl(v: &mut [gen::Inline]) {
        for i in v {
            match i {
                gen::Inline::El(_, _, k) => inl(k),
                gen::Inline::A { name, attrs, kids, .. } => {
                    if name.is_some() {
                        attrs.id = None;
                    }
                    inl(kids);
                }
                _ => {}
            }
        }
    }
    gen::for_runs_mut(blocks, &mut |i| inl(i));
}

/// KF-C08-deep-empty-link: whether a link without visible content is dropped depends on its
/// children one level deep, and an id inside changes that; such links lose their href here.
fn unlink_invisible(blocks: &mut [Block]) -> usize {
    fn inl(v: &mut [gen::Inline], n: &mut usize) {
        for i in v {
            match i {
                gen::Inline::El(_, _, k) => inl(k, n),
                gen::Inline::A { href, kids, .. } => {
                    if href.is_some() && !gen::inlines_visible(kids) {
                        *href = None;
                        *n += 1;
                    }
                    inl(kids, n);
                }
                _ => {}
            }
        }
    }
    let mut n = 0;
    gen::for_runs_mut(blocks, &mut |i| inl(i, &mut n));
    n
}

fn ids_unique(blocks: &[Block]) -> bool {
    let mut b = blocks.to_vec();
    let mut seen = HashSet::new();
    let mut ok = true;
    gen::for_attrs_mut(&mut b, &mut |_, a| {
        if let Some(i) = &a.id {
            ok &= seen.insert(i.clone());
        }
    });
    ok
}

pub fn property() -> Property {
    Property {
        id: "C14",
        level: "exploration",
        rule: "grammar documents with one identifying character per text node and unique ids on random elements (p, div, span, em and other inline elements, a[name], img, li, ul, ol, blockquote, h*, pre, td, tr, table, dl/dt/dd), width 1..=100 with 40% of cases at width 1..=8 (first words hard-wrapped), plain and rich line output, 25% with allow_width_overflow, 20% with pad_block_width. Oracle from the oracle DOM and the linearised element stream of the output: every id on an element with visible text has exactly one FragmentStart; restricted to the characters of the element's scope (innermost table cell, or the document) the marker lies after every character preceding the element and before every character of the element; it is on the same line as the element's first character unless the element starts with a forced break (a <br>, or a block inside an inline element) or white space, zero-width text or decoration text (`*`, `[`, `^{`) separates the marker from that character (a wrap may fall between them; counted) - asserted for every other id-bearing element, mid-line or line-starting, incl. hard-wrapped words and allow_width_overflow at width 1; the string output is byte-identical with all ids removed. Non-trivial = a checked id inside a list item / quote / dd / table cell; distinct by the whole case.",
        assumptions: vec!["ids on elements without visible text are outside the claim (tolerated)", "id on table/thead/tbody/tr whose first cell has no text is a known finding (excluded by predicate, counted)"],
        hang_is_violation: false,
        subs: vec![
            EnumSub::new("explicit", false, |_| explicit_items(), check_explicit).boxed(),
            PropSub::new("ids", 40_000, 400_000, frag_case, check_frags).with_validity(|c| c.doc.valid() && ids_unique(&c.doc.blocks) && gen::runs_visible(&c.doc.blocks) && unlink_invisible(&mut c.doc.blocks.clone()) == 0).boxed(),
        ],
    }
}
