//! Regular tables (every row tiles the same number of columns) for C05 / C06, and the parsing of
//! rendered tables into a character-cell grid.
use crate::gen::{label_of, Attrs, Block, Cell, Cls, Doc, Inline, Row, Table, Txt};
use crate::tablegeo;
use crate::util::cw;
use proptest::prelude::*;
use serde::{Deserialize, Serialize};

#[derive(Clone, Debug, Serialize, Deserialize, PartialEq, Eq, Hash)]
pub enum CellKind {
    Empty,
    /// markup that renders nothing: a spaces-only <pre>, an empty paragraph / inline element, a
    /// comment, an image without alt text
    #[serde(alias = "Blank")]
    Blank(u8),
    Short,
    Long(Vec<u8>),
    Multi(Vec<u8>),
    Wide(Vec<u8>),
    Nested(Box<RTable>),
    /// paragraph, nested table, paragraph
    Mixed(Box<RTable>),
}

#[derive(Clone, Debug, Serialize, Deserialize, PartialEq, Eq, Hash)]
pub struct RCell {
    pub span: usize,
    pub kind: CellKind,
    pub th: bool,
}

#[derive(Clone, Debug, Serialize, Deserialize, PartialEq, Eq, Hash)]
pub struct RTable {
    pub cols: usize,
    pub rows: Vec<Vec<RCell>>,
    /// number of rows in <thead> (0 = no sections)
    pub head: usize,
}

#[derive(Clone, Debug, Serialize, Deserialize, PartialEq, Eq, Hash)]
pub struct RegCase {
    pub table: RTable,
    pub width: usize,
    /// layout options that must not disturb the table structure
    #[serde(default, skip_serializing_if = "TableOpts::is_default")]
    pub opts: TableOpts,
}

#[derive(Clone, Debug, Default, Serialize, Deserialize, PartialEq, Eq, Hash)]
pub struct TableOpts {
    #[serde(default)]
    pub pad: bool,
    #[serde(default)]
    pub max_wrap: Option<usize>,
    #[serde(default)]
    pub min_wrap: Option<usize>,
    #[serde(default)]
    pub rich: bool,
}

impl TableOpts {
    pub fn is_default(&self) -> bool {
        *self == TableOpts::default()
    }
    pub fn cfg(&self) -> crate::cfg::CfgSpec {
        let mut c = if self.rich { crate::cfg::CfgSpec::rich() } else { crate::cfg::CfgSpec::plain() };
        c.pad = self.pad;
        c.max_wrap = self.max_wrap;
        c.min_wrap = self.min_wrap;
        c
    }
    pub fn brief(&self) -> String {
        if self.is_default() { "default".into() } else { format!("{:?}", self) }
    }
}

pub fn table_opts() -> BoxedStrategy<TableOpts> {
    prop_oneof![
        3 => Just(TableOpts::default()),
        2 => (any::<bool>(), prop::option::weighted(0.6, 1usize..=40), prop::option::weighted(0.3, 0usize..=8), any::<bool>())
            .prop_map(|(pad, max_wrap, min_wrap, rich)| TableOpts { pad, max_wrap, min_wrap, rich }),
    ]
    .boxed()
}

/// Cell contents that render nothing.
pub const BLANKS: &[&str] = &["<pre> </pre>", "<p></p>", "<span></span>", "<!-- c -->", "<img src=\"x\">", "<pre>\n</pre>", "<div><span></span></div>"];

impl CellKind {
    /// no rendered content at all
    pub fn renders_nothing(&self) -> bool {
        matches!(self, CellKind::Empty | CellKind::Blank(_))
    }
    /// a blank <pre>: renders nothing but has a size estimate, so its column is allocated space
    pub fn is_blank_pre(&self) -> bool {
        matches!(self, CellKind::Blank(k) if BLANKS[*k as usize % BLANKS.len()].starts_with("<pre"))
    }
}

fn txt(words: &[u8], cls: Cls) -> Inline {
    Inline::Text(Txt { words: words.iter().map(|w| (*w).max(1)).collect(), lead: false, trail: false, cls })
}

impl RTable {
    pub fn is_regular(&self) -> bool {
        self.cols >= 1
            && !self.rows.is_empty()
            && self.rows.iter().all(|r| !r.is_empty() && r.iter().all(|c| c.span >= 1) && r.iter().map(|c| c.span).sum::<usize>() == self.cols)
            && self.rows.iter().flatten().all(|c| match &c.kind {
                CellKind::Nested(t) | CellKind::Mixed(t) => t.is_regular() && !t.has_nested(),
                CellKind::Long(w) | CellKind::Multi(w) | CellKind::Wide(w) => !w.is_empty(),
                _ => true,
            })
    }
    pub fn has_nested(&self) -> bool {
        self.rows.iter().flatten().any(|c| matches!(c.kind, CellKind::Nested(_) | CellKind::Mixed(_)))
    }
    pub fn has_blank_pre(&self) -> bool {
        self.rows.iter().flatten().any(|c| match &c.kind {
            CellKind::Nested(t) | CellKind::Mixed(t) => t.has_blank_pre(),
            k => k.is_blank_pre(),
        })
    }
    pub fn has_span(&self) -> bool {
        self.rows.iter().flatten().any(|c| c.span > 1)
    }
    pub fn to_ast(&self) -> Table {
        let rows = self
            .rows
            .iter()
            .map(|r| Row {
                attrs: Attrs::none(),
                cells: r
                    .iter()
                    .map(|c| Cell {
                        th: c.th,
                        colspan: c.span as u32,
                        attrs: Attrs::none(),
                        kids: match &c.kind {
                            CellKind::Empty => vec![],
                            CellKind::Blank(k) => vec![Block::Inl(vec![crate::gen::Inline::Raw(BLANKS[*k as usize % BLANKS.len()].to_string())])],
                            CellKind::Short => vec![Block::Inl(vec![txt(&[1], Cls::N)])],
                            CellKind::Long(w) => vec![Block::Inl(vec![txt(w, Cls::N)])],
                            CellKind::Multi(w) => w.iter().map(|n| Block::P(Attrs::none(), vec![txt(&[*n], Cls::N)])).collect(),
                            CellKind::Wide(w) => vec![Block::Inl(vec![txt(w, Cls::W)])],
                            CellKind::Nested(t) => vec![Block::Table(t.to_ast())],
                            CellKind::Mixed(t) => vec![
                                Block::P(Attrs::none(), vec![txt(&[2], Cls::N)]),
                                Block::Table(t.to_ast()),
                                Block::P(Attrs::none(), vec![txt(&[1, 1], Cls::N)]),
                            ],
                        },
                    })
                    .collect(),
            })
            .collect();
        Table { attrs: Attrs::none(), head_rows: self.head, sections: self.head > 0, rows }
    }
    pub fn doc(&self) -> Doc {
        Doc::of(vec![Block::Table(self.to_ast())])
    }
    /// Known-finding class KF-C05-ragged / KF-C03-starved-cell: a spanning cell covers a column
    /// without a non-empty span-1 cell (in this table or a nested one).
    pub fn in_known_class(&self) -> bool {
        let ast = self.to_ast();
        let g = tablegeo::geometry_of_ast(&ast);
        if g.has_unanchored_under_span() {
            return true;
        }
        self.rows.iter().flatten().any(|c| match &c.kind {
            CellKind::Nested(t) | CellKind::Mixed(t) => t.in_known_class(),
            _ => false,
        })
    }
    /// Number of labels (text nodes) each outer cell uses, in row-major order.
    pub fn labels_per_cell(&self) -> Vec<Vec<usize>> {
        fn count(t: &RTable) -> usize {
            t.rows.iter().flatten().map(|c| cell_labels(c)).sum()
        }
        fn cell_labels(c: &RCell) -> usize {
            match &c.kind {
                CellKind::Empty | CellKind::Blank(_) => 0,
                CellKind::Short | CellKind::Long(_) | CellKind::Wide(_) => 1,
                CellKind::Multi(w) => w.len(),
                CellKind::Nested(t) => count(t),
                CellKind::Mixed(t) => 2 + count(t),
            }
        }
        self.rows.iter().map(|r| r.iter().map(cell_labels).collect()).collect()
    }
}

fn compositions(cols: usize) -> BoxedStrategy<Vec<usize>> {
    prop::collection::vec(prop::bool::weighted(0.65), cols.saturating_sub(1))
        .prop_map(|cuts| {
            let mut v = vec![];
            let mut cur = 1;
            for c in cuts {
                if c {
                    v.push(cur);
                    cur = 1;
                } else {
                    cur += 1;
                }
            }
            v.push(cur);
            v
        })
        .boxed()
}

fn kind(depth: u32) -> BoxedStrategy<CellKind> {
    let mut opts: Vec<(u32, BoxedStrategy<CellKind>)> = vec![
        (2, Just(CellKind::Empty).boxed()),
        (1, (0u8..BLANKS.len() as u8).prop_map(CellKind::Blank).boxed()),
        (4, Just(CellKind::Short).boxed()),
        (3, prop::collection::vec(1u8..=6, 2..8).prop_map(CellKind::Long).boxed()),
        (1, prop::collection::vec(1u8..=12, 1..2).prop_map(CellKind::Long).boxed()),
        (1, prop::collection::vec(1u8..=4, 2..4).prop_map(CellKind::Multi).boxed()),
        (1, prop::collection::vec(1u8..=3, 1..3).prop_map(CellKind::Wide).boxed()),
    ];
    if depth > 0 {
        opts.push((1, rtable(depth - 1, 3, 3).prop_map(|t| CellKind::Nested(Box::new(t))).boxed()));
        opts.push((1, rtable(depth - 1, 2, 2).prop_map(|t| CellKind::Mixed(Box::new(t))).boxed()));
    }
    proptest::strategy::Union::new_weighted(opts).boxed()
}

pub fn rtable(depth: u32, max_cols: usize, max_rows: usize) -> BoxedStrategy<RTable> {
    (1usize..=max_cols, 1usize..=max_rows, 0usize..3, prop::bool::weighted(0.6))
        .prop_flat_map(move |(cols, nrows, head, anchor_row)| {
            let k = kind(depth);
            let row = compositions(cols).prop_flat_map(move |sp| {
                let n = sp.len();
                (Just(sp), prop::collection::vec((k.clone(), prop::bool::weighted(0.2)), n))
                    .prop_map(|(sp, ks)| sp.into_iter().zip(ks).map(|(span, (kind, th))| RCell { span, kind, th }).collect::<Vec<_>>())
            });
            (prop::collection::vec(row, nrows), prop::collection::vec(prop_oneof![Just(CellKind::Short), prop::collection::vec(1u8..=5, 1..4).prop_map(CellKind::Long)], cols)).prop_map(
                move |(mut rows, anchors)| {
                    if anchor_row {
                        // a row of non-empty span-1 cells: every column is anchored by construction
                        rows[0] = anchors.into_iter().map(|kind| RCell { span: 1, kind, th: true }).collect();
                    }
                    let head = head.min(rows.len());
                    RTable { cols, rows, head }
                },
            )
        })
        .boxed()
}

pub fn reg_case() -> BoxedStrategy<RegCase> {
    (prop_oneof![3 => rtable(0, 6, 5), 1 => rtable(1, 4, 3)], 1usize..=100, table_opts()).prop_map(|(table, width, opts)| RegCase { table, width, opts }).boxed()
}

/// All regular tables up to `max_rows` x `max_cols` over {empty, short, long} and every tiling.
pub fn exhaustive_tables(max_rows: usize, max_cols: usize) -> Vec<RTable> {
    fn comps(n: usize) -> Vec<Vec<usize>> {
        if n == 0 {
            return vec![vec![]];
        }
        let mut out = vec![];
        for first in 1..=n {
            for mut rest in comps(n - first) {
                let mut v = vec![first];
                v.append(&mut rest);
                out.push(v);
            }
        }
        out
    }
    let kinds = [CellKind::Empty, CellKind::Short, CellKind::Long(vec![3, 2, 4])];
    let mut tables = vec![];
    for cols in 1..=max_cols {
        // all rows for this column count
        let mut rows: Vec<Vec<RCell>> = vec![];
        for c in comps(cols) {
            let n = c.len();
            let mut idx = vec![0usize; n];
            loop {
                rows.push(c.iter().zip(idx.iter()).map(|(s, k)| RCell { span: *s, kind: kinds[*k].clone(), th: false }).collect());
                let mut i = 0;
                loop {
                    if i == n {
                        break;
                    }
                    idx[i] += 1;
                    if idx[i] < kinds.len() {
                        break;
                    }
                    idx[i] = 0;
                    i += 1;
                }
                if i == n {
                    break;
                }
            }
        }
        for nrows in 1..=max_rows {
            let mut sel = vec![0usize; nrows];
            loop {
                tables.push(RTable { cols, rows: sel.iter().map(|i| rows[*i].clone()).collect(), head: 0 });
                let mut i = 0;
                loop {
                    if i == nrows {
                        break;
                    }
                    sel[i] += 1;
                    if sel[i] < rows.len() {
                        break;
                    }
                    sel[i] = 0;
                    i += 1;
                }
                if i == nrows {
                    break;
                }
            }
        }
    }
    tables
}

// ---------------------------------------------------------------------------------------------
// output grid

/// One output line as display cells: wide characters occupy two cells (second is '\0'),
/// zero-width characters are dropped.
pub fn grid_line(l: &str) -> Vec<char> {
    let mut v = vec![];
    for c in l.chars() {
        match cw(c) {
            0 => {}
            1 => v.push(c),
            _ => {
                v.push(c);
                v.push('\0');
            }
        }
    }
    v
}

pub fn up(c: char) -> bool {
    matches!(c, '┴' | '┼')
}
pub fn down(c: char) -> bool {
    matches!(c, '┬' | '┼')
}
pub fn is_rule(c: char) -> bool {
    matches!(c, '─' | '┬' | '┴' | '┼')
}

/// The local junction law at every rule glyph and bar of the grid.
pub fn junction_law(grid: &[Vec<char>]) -> Result<usize, String> {
    let mut junctions = 0;
    for y in 0..grid.len() {
        for x in 0..grid[y].len() {
            let c = grid[y][x];
            if !is_rule(c) && c != '│' {
                continue;
            }
            let above = y > 0 && grid[y - 1].get(x).map(|&a| a == '│' || down(a)).unwrap_or(false);
            let below = y + 1 < grid.len() && grid[y + 1].get(x).map(|&a| a == '│' || up(a)).unwrap_or(false);
            if is_rule(c) {
                if c != '─' {
                    junctions += 1;
                }
                if up(c) != above || down(c) != below {
                    return Err(format!("junction mismatch at line {} column {}: glyph {:?} but bar above={} bar below={}", y, x, c, above, below));
                }
            } else if !above || !below {
                return Err(format!("vertical bar at line {} column {} is not continued {}", y, x, if !above { "above" } else { "below" }));
            }
        }
    }
    Ok(junctions)
}

/// Label (text node index) of each display cell of a line, if it shows a pool character.
pub fn label_cells(l: &[char]) -> Vec<Option<usize>> {
    l.iter().map(|c| label_of(*c)).collect()
}

// ---------------------------------------------------------------------------------------------
// analysis of a rendered regular table

#[derive(Clone, Debug, PartialEq, Eq)]
pub enum LayoutKind {
    Empty,
    SideBySide,
    Stacked,
}

pub struct Analysis {
    pub kind: LayoutKind,
    pub lines: Vec<String>,
    pub grid: Vec<Vec<char>>,
    /// indices of lines consisting of rule glyphs only
    pub full_rules: Vec<usize>,
    /// (first line, last line) of each band of text lines between full rules
    pub bands: Vec<(usize, usize)>,
    pub table_width: usize,
}

pub fn analyse(out: &str, width: usize) -> Result<Analysis, String> {
    let lines: Vec<String> = out.lines().map(|s| s.to_string()).collect();
    let grid: Vec<Vec<char>> = lines.iter().map(|l| grid_line(l)).collect();
    if lines.is_empty() {
        return Ok(Analysis { kind: LayoutKind::Empty, lines, grid, full_rules: vec![], bands: vec![], table_width: 0 });
    }
    let w0 = grid[0].len();
    let equal = grid.iter().all(|g| g.len() == w0);
    let full_rules: Vec<usize> = (0..grid.len()).filter(|&i| !grid[i].is_empty() && grid[i].iter().all(|c| is_rule(*c))).collect();
    let mut bands = vec![];
    for p in full_rules.windows(2) {
        if p[1] > p[0] + 1 {
            bands.push((p[0] + 1, p[1] - 1));
        }
    }
    let kind = if equal {
        LayoutKind::SideBySide
    } else if w0 == width && grid[0].iter().all(|c| *c == '─') {
        LayoutKind::Stacked
    } else {
        return Err(format!("lines of unequal display width ({} vs {}) in a table that is not stacked", w0, grid.iter().map(|g| g.len()).find(|n| *n != w0).unwrap_or(0)));
    };
    Ok(Analysis { kind, lines, grid, full_rules, bands, table_width: w0 })
}

/// Positions of bars common to every line of a band.
pub fn band_bars(a: &Analysis, band: (usize, usize)) -> Vec<usize> {
    let mut common: Option<Vec<usize>> = None;
    for y in band.0..=band.1 {
        let here: Vec<usize> = (0..a.grid[y].len()).filter(|&x| a.grid[y][x] == '│').collect();
        common = Some(match common {
            None => here,
            Some(c) => c.into_iter().filter(|x| here.contains(x)).collect(),
        });
    }
    common.unwrap_or_default()
}
