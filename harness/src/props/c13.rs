//! C13 — output does not depend on source formatting of collapsible whitespace.
use super::common::*;
use crate::cfg::{render, render_lines, CfgSpec, Deco, Rend};
use crate::engine::{EnumSub, PropSub, Property, Stats};
use crate::gen::{self, Block, Doc, ITag, Inline, G};
use crate::util::short;
use proptest::prelude::*;
use serde::{Deserialize, Serialize};
use serde_json::json;

#[derive(Clone, Debug, Serialize, Deserialize, PartialEq, Eq, Hash)]
pub struct RewriteCase {
    pub doc: Doc,
    pub width: usize,
    pub cfg: CfgSpec,
    /// choice stream for the source-level rewrite
    pub choices: Vec<u8>,
    /// choice stream for span wrapping (empty = none)
    pub spans: Vec<u8>,
}

const WS: &[&str] = &[
    " ", "  ", "\n", "\t", " \n  ", "\r\n", "\x0c", "\n\n\t ", " <!--c--> ", "<!--c--> ", " <!--c-->", " <!----> ", "\n<!-- a\nb -->\n",
    // the whitespace run itself wrapped in a neutral span
    "<span> </span>", "<span>\n</span>", " <span> </span>", "<span><span>\t</span></span>",
];
const LAYOUT: &[&str] = &["\n", "\n  ", " ", "\n\t", "\r\n    ", " <!--x--> "];
const BLOCK_TAGS: &[&str] = &["p", "div", "ul", "ol", "li", "blockquote", "dl", "dt", "dd", "h1", "h2", "h3", "h4", "h5", "h6"];

struct Choices<'a> {
    v: &'a [u8],
    i: usize,
}
impl<'a> Choices<'a> {
    fn next(&mut self) -> usize {
        if self.v.is_empty() {
            return 0;
        }
        let x = self.v[self.i % self.v.len()];
        self.i += 1;
        x as usize
    }
}

/// Source-level rewrite. Returns the new source and the number of places changed.
pub fn rewrite(html: &str, choices: &[u8], layout_in_dt: bool, excluded: &mut usize) -> (String, usize) {
    let mut ch = Choices { v: choices, i: 0 };
    let mut out = String::with_capacity(html.len() * 2);
    let cs: Vec<char> = html.chars().collect();
    let mut i = 0;
    let mut changed = 0;
    let mut stack: Vec<String> = vec![];
    while i < cs.len() {
        let c = cs[i];
        if c == '<' {
            // copy the tag verbatim
            let mut j = i;
            while j < cs.len() && cs[j] != '>' {
                j += 1;
            }
            let tag: String = cs[i..=j.min(cs.len() - 1)].iter().collect();
            out.push_str(&tag);
            i = j + 1;
            let name: String = tag.trim_start_matches('<').trim_start_matches('/').chars().take_while(|c| c.is_ascii_alphanumeric()).collect();
            if BLOCK_TAGS.contains(&name.as_str()) {
                if tag.starts_with("</") {
                    if let Some(p) = stack.iter().rposition(|n| *n == name) {
                        stack.truncate(p);
                    }
                } else {
                    stack.push(name.clone());
                }
                // KF-C13-dt-layout: whitespace that becomes a direct child of <dt> is kept
                // next to the `*` markers of decorating configurations
                if stack.last().map(|n| n == "dt").unwrap_or(false) && !layout_in_dt {
                    *excluded += 1;
                    continue;
                }
                // only *between block tags*: the next thing must be another block tag (or the end)
                let next_is_block = if i >= cs.len() {
                    true
                } else if cs[i] == '<' {
                    let rest: String = cs[i + 1..].iter().skip_while(|c| **c == '/').take_while(|c| c.is_ascii_alphanumeric()).collect();
                    BLOCK_TAGS.contains(&rest.as_str())
                } else {
                    false
                };
                if !next_is_block {
                    continue;
                }
                let k = ch.next();
                if k % 2 == 0 {
                    out.push_str(LAYOUT[(k / 2) % LAYOUT.len()]);
                    changed += 1;
                }
            }
            continue;
        }
        if c == ' ' {
            let mut j = i;
            while j < cs.len() && cs[j] == ' ' {
                j += 1;
            }
            let k = ch.next();
            let rep = WS[k % WS.len()];
            if rep != " " {
                changed += 1;
            }
            out.push_str(rep);
            i = j;
            continue;
        }
        out.push(c);
        i += 1;
    }
    (out, changed)
}

fn has_text(v: &[Inline]) -> bool {
    v.iter().any(|i| match i {
        Inline::Text(_) => true,
        Inline::El(_, _, k) => has_text(k),
        Inline::A { kids, .. } => has_text(kids),
        _ => false,
    })
}

/// Wrap some inline runs (which contain text) in neutral `<span>` elements.
pub fn spanify(blocks: &mut Vec<Block>, ch: &[u8]) -> usize {
    fn inl(v: &mut Vec<Inline>, c: &mut Choices, n: &mut usize) {
        for i in v.iter_mut() {
            match i {
                Inline::El(_, _, k) => inl(k, c, n),
                Inline::A { kids, .. } => inl(kids, c, n),
                _ => {}
            }
        }
        let k = c.next();
        if k % 3 == 0 && !v.is_empty() {
            let a = (k / 3) % v.len();
            let b = a + 1 + (k / 7) % (v.len() - a);
            if has_text(&v[a..b]) {
                let run: Vec<Inline> = v.drain(a..b).collect();
                v.insert(a, Inline::El(ITag::Span, Default::default(), run));
                *n += 1;
            }
        }
    }
    fn blk(v: &mut Vec<Block>, c: &mut Choices, n: &mut usize) {
        for b in v.iter_mut() {
            match b {
                Block::P(_, i) | Block::Inl(i) | Block::H(_, _, i) => inl(i, c, n),
                Block::Div(_, k) | Block::Quote(_, k) | Block::Wrap(_, _, k) => blk(k, c, n),
                Block::Ul(_, it) | Block::Ol(_, _, it) => it.iter_mut().for_each(|x| blk(&mut x.kids, c, n)),
                Block::Dl(_, it) => it.iter_mut().for_each(|x| blk(&mut x.kids, c, n)),
                Block::Pre(..) | Block::Table(_) => {}
            }
        }
    }
    let mut c = Choices { v: ch, i: 0 };
    let mut n = 0;
    if !ch.is_empty() {
        blk(blocks, &mut c, &mut n);
    }
    n
}

pub fn check_rewrite(case: &RewriteCase, st: &mut Stats) -> Result<(), String> {
    let c = gen::census(&case.doc.blocks);
    if c.tables > 0 || c.pres > 0 {
        return Err("harness: C13 needs table-free, pre-free documents".into());
    }
    let h1 = case.doc.to_html();
    let mut d2 = case.doc.clone();
    let nspans = spanify(&mut d2.blocks, &case.spans);
    let decorating = matches!(case.cfg.deco, Deco::Plain) || case.cfg.decorate;
    let mut excl = 0;
    let (h2, changed) = rewrite(&d2.to_html(), &case.choices, true, &mut excl);
    // (layout white space directly inside <dt> used to be withheld under decorating configurations - the
    // former known finding KF-C13-dt-layout, gone since the fixes f149c50 and e00471e; it is always inserted now)
    let _ = (excl, decorating);
    let w = case.width;
    st.sample(|| json!({"original": short(&h1, 300), "rewritten": short(&h2, 400), "width": w, "cfg": cfg_brief(&case.cfg)}));
    let a = render(&case.cfg, h1.as_bytes(), w);
    let b = render(&case.cfg, h2.as_bytes(), w);
    for r in [&a, &b] {
        if let Some(x) = r.bad() {
            return Err(x);
        }
    }
    match (&a, &b) {
        (Rend::Ok(x), Rend::Ok(y)) => {
            if x != y {
                return Err(format!(
                    "rendering depends on source formatting (w={})\n original ={:?}\n rewritten={:?}\n out1={:?}\n out2={:?}",
                    w,
                    short(&h1, 700),
                    short(&h2, 900),
                    short(x, 500),
                    short(y, 500)
                ));
            }
            if case.cfg.deco == Deco::Rich {
                let la = render_lines(&case.cfg, h1.as_bytes(), w);
                let lb = render_lines(&case.cfg, h2.as_bytes(), w);
                if la != lb {
                    return Err(format!(
                        "tagged lines depend on source formatting (w={})\n original ={:?}\n rewritten={:?}",
                        w,
                        short(&h1, 700),
                        short(&h2, 900)
                    ));
                }
            }
            if nspans > 0 {
                st.class("span_wrapped");
            }
            if changed + nspans >= 3 && x.lines().count() >= 2 {
                st.nontrivial(case);
                st.nt_sample(|| json!({"original": short(&h1, 300), "rewritten": short(&h2, 400), "width": w}));
            }
        }
        (Rend::Ok(_), _) | (_, Rend::Ok(_)) => st.class("ok_vs_toonarrow_disparity(not asserted)"),
        _ => st.class("both_toonarrow"),
    }
    Ok(())
}

/// An explicit pair of sources (regressions and known findings).
#[derive(Clone, Debug, Serialize, Deserialize, PartialEq, Eq, Hash)]
pub struct PairCase {
    pub original: String,
    pub rewritten: String,
    pub width: usize,
    pub cfg: CfgSpec,
}

pub fn check_pair(case: &PairCase, st: &mut Stats) -> Result<(), String> {
    st.nontrivial(case);
    let a = render(&case.cfg, case.original.as_bytes(), case.width);
    let b = render(&case.cfg, case.rewritten.as_bytes(), case.width);
    for r in [&a, &b] {
        if let Some(x) = r.bad() {
            return Err(x);
        }
    }
    if let (Rend::Ok(x), Rend::Ok(y)) = (&a, &b) {
        if x != y {
            return Err(format!(
                "rendering depends on source formatting (w={})\n original ={:?}\n rewritten={:?}\n out1={:?}\n out2={:?}",
                case.width, case.original, case.rewritten, x, y
            ));
        }
        if case.cfg.deco == Deco::Rich {
            let la = render_lines(&case.cfg, case.original.as_bytes(), case.width);
            let lb = render_lines(&case.cfg, case.rewritten.as_bytes(), case.width);
            if la != lb {
                return Err(format!(
                    "tagged lines depend on source formatting (w={})\n original ={:?}\n rewritten={:?}\n lines1={:?}\n lines2={:?}",
                    case.width, case.original, case.rewritten, la.as_ok(), lb.as_ok()
                ));
            }
        }
    }
    Ok(())
}

fn regression_pairs() -> Vec<PairCase> {
    let p = |a: &str, b: &str, w: usize, cfg: CfgSpec| PairCase { original: a.into(), rewritten: b.into(), width: w, cfg };
    vec![
        // fixed: strikeout marks after whitespace
        p("<s>a </s>b", "<s>a\n</s>b", 10, CfgSpec::plain()),
        p("<p>x <s>a b </s></p>", "<p>x\t<s>a\n\nb\r\n</s></p>", 1, CfgSpec::plain()),
        p("<ul><li>a b</li><li>c</li></ul>", "<ul>\n  <li>a\n b</li>\n  <li>c</li>\n</ul>\n", 5, CfgSpec::rich()),
        p("<p>a b</p><p>c</p>", "<p>a <!--x--> b</p>\n<!--y-->\n<p>c</p>", 3, CfgSpec::plain_nd()),
    ]
}

/// Enumerated: white space that follows (or precedes) a block-like element placed where the
/// grammar does not put it (a list part outside its list, a block inside an inline wrapper),
/// written as plain text / split off by a comment / wrapped in a span / replaced by another run.
fn odd_place_pairs() -> Vec<PairCase> {
    let parts: &[&str] = &["<dt>T</dt>", "<dd>T</dd>", "<p>T</p>", "<div>T</div>", "<h2>T</h2>", "<ul><li>T</li></ul>", "<blockquote>T</blockquote>", "<em>T</em>", "<sup>2</sup>"];
    let outers: &[(&str, &str)] = &[("", ""), ("<div>", "</div>"), ("<blockquote>", "</blockquote>"), ("<span>", "</span>"), ("<ul><li>", "</li></ul>"), ("<u>", "</u>")];
    let tails: &[&str] = &["text", "<span>text</span>", "<em>text</em>", "te<b>xt</b> more"];
    // (original white space, rewritten white space) - the same collapsible run in another spelling
    let ws: &[(&str, &str)] = &[(" ", " <!--c-->"), (" ", "<!--c--> "), (" ", "<span> </span>"), (" ", "\n\t "), ("\n", " <!--c--> ")];
    let mut v = vec![];
    for part in parts {
        for (o, e) in outers {
            for tail in tails {
                for (w0, w1) in ws {
                    for width in [3usize, 40] {
                        // white space after the part, and before it
                        v.push(PairCase { original: format!("{}{}{}{}{}", o, part, w0, tail, e), rewritten: format!("{}{}{}{}{}", o, part, w1, tail, e), width, cfg: CfgSpec::plain() });
                        v.push(PairCase { original: format!("{}{}{}{}{}", o, tail, w0, part, e), rewritten: format!("{}{}{}{}{}", o, tail, w1, part, e), width, cfg: CfgSpec::rich() });
                    }
                }
            }
        }
    }
    v
}

pub fn rewrite_case(g: G) -> BoxedStrategy<RewriteCase> {
    let cfg = prop_oneof![
        3 => Just(CfgSpec::plain()),
        2 => Just(CfgSpec::plain_nd()),
        2 => Just(CfgSpec::rich()),
        2 => cfg_bounded(),
    ];
    (
        gen::doc(&g),
        1usize..=100,
        cfg,
        prop::collection::vec(any::<u8>(), 1..40),
        prop_oneof![2 => Just(vec![]), 1 => prop::collection::vec(any::<u8>(), 1..12)],
        prop::bool::weighted(0.3),
    )
        .prop_map(|(mut doc, width, mut cfg, choices, spans, doc_css)| {
            // style attributes (on white-space-free elements only) take effect
            cfg.doc_css = cfg.doc_css || doc_css;
            // KF-C13-invisible-block: runs without visible content are outside the searched domain
            gen::ensure_runs_visible(&mut doc.blocks);
            RewriteCase { doc, width, cfg, choices, spans }
        })
        .boxed()
}

pub fn property() -> Property {
    let mut g = G::default().no_tables().depth(2).with_digit_sup();
    g.pre = false;
    Property {
        id: "C13",
        level: "exploration",
        rule: "table-free, pre-free grammar documents x source rewrite (every collapsible whitespace run replaced by one of 17 alternatives incl. tabs, CR LF, form feed, adjacent comments, the run wrapped in <span>; layout whitespace/comments inserted after block tags; inline runs containing text wrapped in <span>) x width 1..=100 x plain / plain_no_decorate / rich / option mixes; oracle (metamorphic): when both renderings succeed they are byte-identical (strings, and tagged lines for rich). Non-trivial = >= 3 places changed and >= 2 output lines; distinct by the whole case.",
        assumptions: vec!["Ok-vs-TooNarrow disparity between the two sources is counted, not asserted (text-node splitting changes the minimum-width estimate)"],
        hang_is_violation: false,
        subs: vec![
            EnumSub::new("pairs", false, |_| regression_pairs(), check_pair).boxed(),
            EnumSub::new("odd_places", true, |_| odd_place_pairs(), check_pair).boxed(),
            PropSub::new("rewrite", 48_000, 480_000, move || rewrite_case(g.clone()), check_rewrite).with_validity(|c| c.doc.valid() && gen::runs_visible(&c.doc.blocks)).boxed(),
        ],
    }
}
