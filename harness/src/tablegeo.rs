//! Independent re-computation of html2text's column geometry (colspan=0 replacement, column
//! remapping) for AST tables and oracle-DOM tables, used to state input classes of known findings
//! and to know which cells share columns.
use crate::gen::{self, Block, Inline};
use crate::odom::Arena;

#[derive(Clone, Debug)]
pub struct TCell {
    /// colspan attribute as html2text reads it (unparsable => 1, clamped to 1000)
    pub colspan: usize,
    pub has_text: bool,
    /// html2text's size estimate of the cell content when the harness can compute it exactly
    /// (plain text content); None = unknown
    pub size: Option<usize>,
}

#[derive(Clone, Debug, Default)]
pub struct Geo {
    /// per row: (start column, span) of each cell, in the remapped grid
    pub rows: Vec<Vec<(usize, usize)>>,
    pub has_text: Vec<Vec<bool>>,
    pub sizes: Vec<Vec<Option<usize>>>,
    pub ncols: usize,
}

/// `sections` = rows grouped by thead/tbody/tfoot element, in document order.
pub fn geometry(sections: &[Vec<Vec<TCell>>]) -> Geo {
    // step 1: colspan=0 replacement, per section
    let mut rows: Vec<Vec<TCell>> = vec![];
    for sec in sections {
        let counts: Vec<(bool, usize)> = sec
            .iter()
            .map(|r| r.iter().fold((false, 0usize), |a, c| (a.0 || c.colspan == 0, a.1 + c.colspan.max(1))))
            .collect();
        let max_cols = counts.iter().map(|c| c.1).max().unwrap_or(1);
        for (r, (has_zero, n)) in sec.iter().zip(counts.iter()) {
            let mut row = r.clone();
            if *has_zero {
                for c in row.iter_mut() {
                    if c.colspan == 0 {
                        c.colspan = max_cols - n + 1;
                    }
                }
            }
            rows.push(row);
        }
    }
    // step 2: remap column positions to the smallest ids
    let mut positions = std::collections::BTreeSet::new();
    positions.insert(0usize);
    for r in &rows {
        let mut col = 0;
        for c in r {
            col += c.colspan;
            positions.insert(col);
        }
    }
    let map: std::collections::HashMap<usize, usize> = positions.iter().enumerate().map(|(i, p)| (*p, i)).collect();
    let mut geo = Geo::default();
    for r in &rows {
        let mut pos = 0;
        let mut mapped = 0;
        let mut out = vec![];
        let mut txt = vec![];
        let mut szs = vec![];
        for c in r {
            let next = pos + c.colspan.max(1);
            let nm = *map.get(&next).unwrap_or(&(mapped + 1));
            out.push((mapped, nm - mapped));
            txt.push(c.has_text);
            szs.push(c.size);
            pos = next;
            mapped = nm;
        }
        geo.ncols = geo.ncols.max(mapped);
        geo.rows.push(out);
        geo.has_text.push(txt);
        geo.sizes.push(szs);
    }
    geo
}

impl Geo {
    /// Columns that certainly get a non-zero size estimate: a column is live if some cell covering
    /// it has floor(size / span) >= 1, i.e. a non-empty span-1 cell, or a spanning cell whose
    /// (exactly known) size estimate is at least its span.
    pub fn anchored_columns(&self) -> Vec<bool> {
        let mut v = vec![false; self.ncols];
        for ((r, t), z) in self.rows.iter().zip(self.has_text.iter()).zip(self.sizes.iter()) {
            for (((s, span), has), size) in r.iter().zip(t.iter()).zip(z.iter()) {
                let live = if *span == 1 { *has } else { size.map(|x| x >= *span).unwrap_or(false) };
                if live {
                    for c in *s..(*s + *span).min(v.len()) {
                        v[c] = true;
                    }
                }
            }
        }
        v
    }
    /// A cell with text spanning >= 2 columns none of which is live: its per-column size
    /// estimate rounds down to 0 and the cell is dropped (known finding KF-C03-starved-cell).
    pub fn has_starved_risk(&self) -> bool {
        let a = self.anchored_columns();
        for (r, t) in self.rows.iter().zip(self.has_text.iter()) {
            for ((s, span), has) in r.iter().zip(t.iter()) {
                if *has && *span >= 2 && !(*s..*s + *span).any(|c| a.get(c).copied().unwrap_or(false)) {
                    return true;
                }
            }
        }
        false
    }
    /// A spanning cell covers a column that is not live (zero-width column inside a span:
    /// known finding KF-C05-ragged).
    pub fn has_unanchored_under_span(&self) -> bool {
        let a = self.anchored_columns();
        for r in &self.rows {
            for (s, span) in r {
                if *span >= 2 && (*s..*s + *span).any(|c| !a.get(c).copied().unwrap_or(false)) {
                    return true;
                }
            }
        }
        false
    }
}

/// html2text's size estimate for cell content made of plain paragraphs / bare text runs only
/// (text nodes: display width of the words plus one per inner space, plus one for leading
/// whitespace); None when the content has anything else.
pub fn simple_size(v: &[Block]) -> Option<usize> {
    fn txt(t: &gen::Txt) -> usize {
        let w: usize = t.words.iter().map(|n| (*n).max(1) as usize).sum::<usize>() * if matches!(t.cls, gen::Cls::W | gen::Cls::V) { 2 } else { 1 };
        w + t.words.len().saturating_sub(1) + t.lead as usize
    }
    let mut total = 0;
    for b in v {
        match b {
            Block::P(_, i) | Block::Inl(i) => {
                for x in i {
                    match x {
                        Inline::Text(t) if !matches!(t.cls, gen::Cls::C | gen::Cls::M | gen::Cls::V) => total += txt(t),
                        _ => return None,
                    }
                }
            }
            _ => return None,
        }
    }
    Some(total)
}

fn blocks_have_text(v: &[Block]) -> bool {
    fn inl(v: &[Inline]) -> bool {
        gen::inlines_visible(v)
    }
    v.iter().any(|b| match b {
        Block::P(_, i) | Block::Inl(i) | Block::H(_, _, i) => inl(i),
        Block::Div(_, k) | Block::Quote(_, k) | Block::Wrap(_, _, k) => blocks_have_text(k),
        Block::Ul(_, it) | Block::Ol(_, _, it) => it.iter().any(|x| blocks_have_text(&x.kids)),
        Block::Dl(_, it) => it.iter().any(|x| blocks_have_text(&x.kids)),
        Block::Pre(_, lines) => lines.iter().flatten().any(|t| matches!(t, gen::PreTok::Word(_))),
        Block::Table(t) => t.rows.iter().flat_map(|r| r.cells.iter()).any(|c| blocks_have_text(&c.kids)),
    })
}

pub fn geometry_of_ast(t: &gen::Table) -> Geo {
    let cells = |r: &gen::Row| -> Vec<TCell> {
        r.cells.iter().map(|c| TCell { colspan: (c.colspan as usize).min(1000), has_text: blocks_have_text(&c.kids), size: simple_size(&c.kids) }).collect()
    };
    let n = t.rows.len();
    let head = t.head_rows.min(n);
    let sections: Vec<Vec<Vec<TCell>>> = if t.sections && head > 0 && head < n {
        vec![t.rows[..head].iter().map(cells).collect(), t.rows[head..].iter().map(cells).collect()]
    } else {
        vec![t.rows.iter().map(cells).collect()]
    };
    geometry(&sections)
}

/// Apply `f` to every table of an AST (including nested ones).
pub fn any_table(v: &[Block], f: &dyn Fn(&gen::Table) -> bool) -> bool {
    v.iter().any(|b| match b {
        Block::Div(_, k) | Block::Quote(_, k) | Block::Wrap(_, _, k) => any_table(k, f),
        Block::Ul(_, it) | Block::Ol(_, _, it) => it.iter().any(|x| any_table(&x.kids, f)),
        Block::Dl(_, it) => it.iter().any(|x| any_table(&x.kids, f)),
        Block::Table(t) => f(t) || t.rows.iter().flat_map(|r| r.cells.iter()).any(|c| any_table(&c.kids, f)),
        _ => false,
    })
}

/// Geometry of a `<table>` element of the oracle DOM, mirroring which descendants html2text uses.
pub fn geometry_of_dom(dom: &Arena, table: usize) -> Geo {
    let mut sections = vec![];
    for &sec in dom.children(table) {
        if !matches!(dom.name(sec), Some("thead" | "tbody" | "tfoot")) {
            continue;
        }
        let mut rows = vec![];
        for &tr in dom.children(sec) {
            if dom.name(tr) != Some("tr") {
                continue;
            }
            let mut cells = vec![];
            for &td in dom.children(tr) {
                if !matches!(dom.name(td), Some("td" | "th")) {
                    continue;
                }
                let colspan = dom.attr(td, "colspan").map(|v| v.parse::<usize>().unwrap_or(1).min(1000)).unwrap_or(1);
                cells.push(TCell { colspan, has_text: dom.has_visible_text(td), size: None });
            }
            rows.push(cells);
        }
        if !rows.is_empty() || !dom.children(sec).is_empty() {
            sections.push(rows);
        }
    }
    geometry(&sections)
}
