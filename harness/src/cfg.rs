//! Configuration specs (serialisable) and a uniform way to call every public html2text route.
use html2text::config::{self, Config};
use html2text::render::{
    RichAnnotation, TaggedLine, TaggedLineElement, TextDecorator, TrivialDecorator,
};
use html2text::Error;
use serde::{Deserialize, Serialize};
use std::panic::{catch_unwind, AssertUnwindSafe};

/// Strings of a harness-defined decorator (C01 with ASCII strings, C16 with any strings).
#[derive(Clone, Debug, Serialize, Deserialize, PartialEq, Eq, Hash, Default)]
pub struct DecoStrings {
    pub link: (String, String),
    pub em: (String, String),
    pub strong: (String, String),
    pub strike: (String, String),
    pub code: (String, String),
    pub img: (String, String),
    pub sup: (String, String),
    /// Heading prefix = hdr_unit repeated `level` times followed by hdr_tail.
    pub hdr_unit: String,
    pub hdr_tail: String,
    pub quote: String,
    pub ul: String,
    /// Ordered prefix = number (in `ol_style`) + ol_tail.
    pub ol_tail: String,
    /// Numbering of ordered items: 0 decimal, 1 lower roman (1..=3999), 2 letters a..z, aa.. ,
    /// 3 full-width digits, 4 tally marks repeating every five - marker widths need not be
    /// monotonic in the number.
    #[serde(default)]
    pub ol_style: u8,
}

fn roman(mut n: i64) -> String {
    let mut out = String::new();
    for (v, s) in [(1000, "m"), (900, "cm"), (500, "d"), (400, "cd"), (100, "c"), (90, "xc"), (50, "l"), (40, "xl"), (10, "x"), (9, "ix"), (5, "v"), (4, "iv"), (1, "i")] {
        while n >= v {
            out.push_str(s);
            n -= v;
        }
    }
    out
}

impl DecoStrings {
    pub fn plain_like() -> DecoStrings {
        DecoStrings {
            link: ("[".into(), "]".into()),
            em: ("".into(), "".into()),
            strong: ("".into(), "".into()),
            strike: ("".into(), "".into()),
            code: ("".into(), "".into()),
            img: ("[".into(), "]".into()),
            sup: ("^{".into(), "}".into()),
            hdr_unit: "#".into(),
            hdr_tail: " ".into(),
            quote: "> ".into(),
            ul: "* ".into(),
            ol_tail: ". ".into(),
            ol_style: 0,
        }
    }
    /// The marker of ordered item `i`.
    pub fn ol_marker(&self, i: i64) -> String {
        let num = match self.ol_style % 5 {
            1 if (1..=3999).contains(&i) => roman(i),
            2 if i >= 1 => {
                let mut n = i;
                let mut v = vec![];
                while n > 0 {
                    n -= 1;
                    v.push((b'a' + (n % 26) as u8) as char);
                    n /= 26;
                }
                v.iter().rev().collect()
            }
            3 => i.to_string().chars().map(|c| if c.is_ascii_digit() { char::from_u32(0xff10 + (c as u32 - '0' as u32)).unwrap() } else { c }).collect(),
            4 => "|".repeat(i.rem_euclid(5) as usize + 1),
            _ => i.to_string(),
        };
        format!("{}{}", num, self.ol_tail)
    }
    pub fn all_strings(&self) -> Vec<&str> {
        vec![
            &self.link.0,
            &self.link.1,
            &self.em.0,
            &self.em.1,
            &self.strong.0,
            &self.strong.1,
            &self.strike.0,
            &self.strike.1,
            &self.code.0,
            &self.code.1,
            &self.img.0,
            &self.img.1,
            &self.sup.0,
            &self.sup.1,
            &self.hdr_unit,
            &self.hdr_tail,
            &self.quote,
            &self.ul,
            &self.ol_tail,
        ]
    }
    pub fn is_ascii(&self) -> bool {
        self.all_strings().iter().all(|s| s.is_ascii())
    }
}

/// Annotation of the harness decorator: which element kind.
#[derive(Clone, Debug, PartialEq, Eq, Default)]
pub enum CAnn {
    #[default]
    None,
    Link(String),
    Em,
    Strong,
    Strike,
    Code,
    Img(String),
    Sup,
    PreFirst,
    PreCont,
}

#[derive(Clone, Debug)]
pub struct CustomDeco(pub DecoStrings);

impl TextDecorator for CustomDeco {
    type Annotation = CAnn;
    fn decorate_link_start(&mut self, url: &str) -> (String, CAnn) {
        (self.0.link.0.clone(), CAnn::Link(url.to_string()))
    }
    fn decorate_link_end(&mut self) -> String {
        self.0.link.1.clone()
    }
    fn decorate_em_start(&self) -> (String, CAnn) {
        (self.0.em.0.clone(), CAnn::Em)
    }
    fn decorate_em_end(&self) -> String {
        self.0.em.1.clone()
    }
    fn decorate_strong_start(&self) -> (String, CAnn) {
        (self.0.strong.0.clone(), CAnn::Strong)
    }
    fn decorate_strong_end(&self) -> String {
        self.0.strong.1.clone()
    }
    fn decorate_strikeout_start(&self) -> (String, CAnn) {
        (self.0.strike.0.clone(), CAnn::Strike)
    }
    fn decorate_strikeout_end(&self) -> String {
        self.0.strike.1.clone()
    }
    fn decorate_code_start(&self) -> (String, CAnn) {
        (self.0.code.0.clone(), CAnn::Code)
    }
    fn decorate_code_end(&self) -> String {
        self.0.code.1.clone()
    }
    fn decorate_preformat_first(&self) -> CAnn {
        CAnn::PreFirst
    }
    fn decorate_preformat_cont(&self) -> CAnn {
        CAnn::PreCont
    }
    fn decorate_image(&mut self, src: &str, title: &str) -> (String, CAnn) {
        (
            format!("{}{}{}", self.0.img.0, title, self.0.img.1),
            CAnn::Img(src.to_string()),
        )
    }
    fn header_prefix(&self, level: usize) -> String {
        self.0.hdr_unit.repeat(level) + &self.0.hdr_tail
    }
    fn quote_prefix(&self) -> String {
        self.0.quote.clone()
    }
    fn unordered_item_prefix(&self) -> String {
        self.0.ul.clone()
    }
    fn ordered_item_prefix(&self, i: i64) -> String {
        self.0.ol_marker(i)
    }
    fn make_subblock_decorator(&self) -> Self {
        self.clone()
    }
    fn decorate_superscript_start(&self) -> (String, CAnn) {
        (self.0.sup.0.clone(), CAnn::Sup)
    }
    fn decorate_superscript_end(&self) -> String {
        self.0.sup.1.clone()
    }
}

#[derive(Clone, Debug, Serialize, Deserialize, PartialEq, Eq, Hash, Default)]
pub enum Deco {
    #[default]
    Plain,
    PlainNoDecorate,
    Rich,
    Trivial,
    Custom(DecoStrings),
}

#[derive(Clone, Debug, Serialize, Deserialize, PartialEq, Eq, Hash, Default)]
pub struct CfgSpec {
    pub deco: Deco,
    #[serde(default)]
    pub overflow: bool,
    #[serde(default)]
    pub min_wrap: Option<usize>,
    #[serde(default)]
    pub max_wrap: Option<usize>,
    #[serde(default)]
    pub pad: bool,
    #[serde(default)]
    pub raw: bool,
    #[serde(default)]
    pub no_borders: bool,
    #[serde(default)]
    pub no_link_wrap: bool,
    #[serde(default)]
    pub footnotes: Option<bool>,
    #[serde(default)]
    pub strikeout: Option<bool>,
    #[serde(default)]
    pub decorate: bool,
    #[serde(default)]
    pub doc_css: bool,
    #[serde(default)]
    pub user_css: Vec<String>,
    #[serde(default)]
    pub agent_css: Vec<String>,
}

impl CfgSpec {
    pub fn of(deco: Deco) -> CfgSpec {
        CfgSpec {
            deco,
            ..Default::default()
        }
    }
    pub fn plain() -> CfgSpec {
        Self::of(Deco::Plain)
    }
    pub fn plain_nd() -> CfgSpec {
        Self::of(Deco::PlainNoDecorate)
    }
    pub fn rich() -> CfgSpec {
        Self::of(Deco::Rich)
    }
    pub fn trivial() -> CfgSpec {
        Self::of(Deco::Trivial)
    }
    /// Whether link footnotes end up enabled.
    pub fn footnotes_on(&self) -> bool {
        match self.footnotes {
            Some(b) => b,
            None => matches!(self.deco, Deco::Plain),
        }
    }
    pub fn n_options(&self) -> usize {
        self.overflow as usize
            + self.min_wrap.is_some() as usize
            + self.max_wrap.is_some() as usize
            + self.pad as usize
            + self.raw as usize
            + self.no_borders as usize
            + self.no_link_wrap as usize
            + self.footnotes.is_some() as usize
            + self.strikeout.is_some() as usize
            + self.decorate as usize
            + self.doc_css as usize
            + (!self.user_css.is_empty()) as usize
            + (!self.agent_css.is_empty()) as usize
    }
}

/// Normalised annotation (mirror of RichAnnotation / CAnn / unit).
#[derive(Clone, Debug, PartialEq, Eq, Hash, Serialize, Deserialize)]
pub enum Ann {
    Default,
    Link(String),
    Image(String),
    Emphasis,
    Strong,
    Strikeout,
    Code,
    Preformat(bool),
    Colour(u8, u8, u8),
    BgColour(u8, u8, u8),
    Sup,
    Other(String),
}

#[derive(Clone, Debug, PartialEq, Eq)]
pub enum OElem {
    Str(String, Vec<Ann>),
    Frag(String),
}

pub type OLine = Vec<OElem>;

pub fn oline_text(l: &OLine) -> String {
    let mut s = String::new();
    for e in l {
        if let OElem::Str(t, _) = e {
            s.push_str(t);
        }
    }
    s
}

pub fn olines_to_string(ls: &[OLine]) -> String {
    let mut s = String::new();
    for l in ls {
        s.push_str(&oline_text(l));
        s.push('\n');
    }
    s
}

/// Outcome of one render call.
#[derive(Clone, Debug, PartialEq, Eq)]
pub enum Rend<T> {
    Ok(T),
    TooNarrow,
    /// Any other `Err(_)` (never acceptable for rendering).
    Err(String),
    /// add_css / add_agent_css returned CssParseError while building the config.
    CssErr,
    Panic(String),
}

impl<T> Rend<T> {
    pub fn ok(self) -> Option<T> {
        match self {
            Rend::Ok(t) => Some(t),
            _ => None,
        }
    }
    pub fn as_ok(&self) -> Option<&T> {
        match self {
            Rend::Ok(t) => Some(t),
            _ => None,
        }
    }
    pub fn is_ok(&self) -> bool {
        matches!(self, Rend::Ok(_))
    }
    pub fn is_narrow(&self) -> bool {
        matches!(self, Rend::TooNarrow)
    }
    pub fn kind(&self) -> &'static str {
        match self {
            Rend::Ok(_) => "ok",
            Rend::TooNarrow => "toonarrow",
            Rend::Err(_) => "err",
            Rend::CssErr => "csserr",
            Rend::Panic(_) => "panic",
        }
    }
    pub fn map<U>(self, f: impl FnOnce(T) -> U) -> Rend<U> {
        match self {
            Rend::Ok(t) => Rend::Ok(f(t)),
            Rend::TooNarrow => Rend::TooNarrow,
            Rend::Err(e) => Rend::Err(e),
            Rend::CssErr => Rend::CssErr,
            Rend::Panic(p) => Rend::Panic(p),
        }
    }
    /// Panic / unexpected error description, if any.
    pub fn bad(&self) -> Option<String> {
        match self {
            Rend::Err(e) => Some(format!("unexpected Err({})", e)),
            Rend::Panic(p) => Some(format!("PANIC: {}", p)),
            _ => None,
        }
    }
}

fn from_result<T>(r: Result<T, Error>) -> Rend<T> {
    match r {
        Ok(t) => Rend::Ok(t),
        Err(Error::TooNarrow) => Rend::TooNarrow,
        Err(Error::CssParseError) => Rend::Err("CssParseError from render".into()),
        Err(e) => Rend::Err(format!("{:?}", e)),
    }
}

thread_local! {
    pub static LAST_PANIC: std::cell::RefCell<String> = std::cell::RefCell::new(String::new());
}

/// Install a panic hook which records the message in a thread local and prints nothing.
pub fn install_quiet_panic_hook() {
    std::panic::set_hook(Box::new(|info| {
        let msg = if let Some(s) = info.payload().downcast_ref::<&str>() {
            s.to_string()
        } else if let Some(s) = info.payload().downcast_ref::<String>() {
            s.clone()
        } else {
            "<non-string panic>".to_string()
        };
        let loc = info
            .location()
            .map(|l| format!("{}:{}", l.file(), l.line()))
            .unwrap_or_default();
        LAST_PANIC.with(|p| *p.borrow_mut() = format!("{} at {}", msg, loc));
    }));
}

pub fn guard<T>(f: impl FnOnce() -> Rend<T>) -> Rend<T> {
    match catch_unwind(AssertUnwindSafe(f)) {
        Ok(r) => r,
        Err(_) => Rend::Panic(LAST_PANIC.with(|p| p.borrow().clone())),
    }
}

/// Apply the option part of the spec to a config.
fn apply<D: TextDecorator>(mut c: Config<D>, s: &CfgSpec) -> Result<Config<D>, Error> {
    if s.decorate {
        c = c.do_decorate();
    }
    if let Some(b) = s.footnotes {
        c = c.link_footnotes(b);
    }
    if s.overflow {
        c = c.allow_width_overflow();
    }
    if let Some(k) = s.min_wrap {
        c = c.min_wrap_width(k);
    }
    if let Some(k) = s.max_wrap {
        c = c.max_wrap_width(k);
    }
    if s.pad {
        c = c.pad_block_width();
    }
    if s.no_borders {
        c = c.no_table_borders();
    }
    if s.raw {
        c = c.raw_mode(true);
    }
    if s.no_link_wrap {
        c = c.no_link_wrapping();
    }
    if let Some(b) = s.strikeout {
        c = c.unicode_strikeout(b);
    }
    if s.doc_css {
        c = c.use_doc_css();
    }
    for css in &s.agent_css {
        c = c.add_agent_css(css)?;
    }
    for css in &s.user_css {
        c = c.add_css(css)?;
    }
    Ok(c)
}

pub trait ToAnn {
    fn to_ann(&self) -> Ann;
}
impl ToAnn for () {
    fn to_ann(&self) -> Ann {
        Ann::Default
    }
}
impl ToAnn for RichAnnotation {
    fn to_ann(&self) -> Ann {
        match self {
            RichAnnotation::Default => Ann::Default,
            RichAnnotation::Link(u) => Ann::Link(u.clone()),
            RichAnnotation::Image(u) => Ann::Image(u.clone()),
            RichAnnotation::Emphasis => Ann::Emphasis,
            RichAnnotation::Strong => Ann::Strong,
            RichAnnotation::Strikeout => Ann::Strikeout,
            RichAnnotation::Code => Ann::Code,
            RichAnnotation::Preformat(b) => Ann::Preformat(*b),
            RichAnnotation::Colour(c) => Ann::Colour(c.r, c.g, c.b),
            RichAnnotation::BgColour(c) => Ann::BgColour(c.r, c.g, c.b),
            x => Ann::Other(format!("{:?}", x)),
        }
    }
}
impl ToAnn for CAnn {
    fn to_ann(&self) -> Ann {
        match self {
            CAnn::None => Ann::Default,
            CAnn::Link(u) => Ann::Link(u.clone()),
            CAnn::Em => Ann::Emphasis,
            CAnn::Strong => Ann::Strong,
            CAnn::Strike => Ann::Strikeout,
            CAnn::Code => Ann::Code,
            CAnn::Img(u) => Ann::Image(u.clone()),
            CAnn::Sup => Ann::Sup,
            CAnn::PreFirst => Ann::Preformat(false),
            CAnn::PreCont => Ann::Preformat(true),
        }
    }
}

fn conv_lines<A: ToAnn + std::fmt::Debug + Eq + Clone + Default>(ls: Vec<TaggedLine<Vec<A>>>) -> Vec<OLine> {
    ls.iter()
        .map(|l| {
            l.iter()
                .map(|e| match e {
                    TaggedLineElement::Str(ts) => {
                        OElem::Str(ts.s.clone(), ts.tag.iter().map(|a| a.to_ann()).collect())
                    }
                    TaggedLineElement::FragmentStart(n) => OElem::Frag(n.clone()),
                })
                .collect()
        })
        .collect()
}

/// The public routes of the library.
#[derive(Clone, Copy, Debug, Serialize, Deserialize, PartialEq, Eq, Hash)]
pub enum Route {
    /// `Config::string_from_read`
    Str,
    /// `Config::lines_from_read`, pieces joined
    Lines,
    /// parse_html + dom_to_render_tree + render_to_string
    StagedStr,
    /// parse_html + dom_to_render_tree + render_to_lines
    StagedLines,
    /// `Config::coloured` with the identity map (rich only; falls back to Lines otherwise)
    Coloured,
    /// staged + render_coloured with identity map (rich only; falls back to StagedLines)
    StagedColoured,
}

macro_rules! with_config {
    ($spec:expr, $c:ident => $body:expr) => {{
        let spec: &CfgSpec = $spec;
        match &spec.deco {
            Deco::Plain => match apply(config::plain(), spec) {
                Ok($c) => $body,
                Err(_) => Rend::CssErr,
            },
            Deco::PlainNoDecorate => match apply(config::plain_no_decorate(), spec) {
                Ok($c) => $body,
                Err(_) => Rend::CssErr,
            },
            Deco::Rich => match apply(config::rich(), spec) {
                Ok($c) => $body,
                Err(_) => Rend::CssErr,
            },
            Deco::Trivial => match apply(config::with_decorator(TrivialDecorator::new()), spec) {
                Ok($c) => $body,
                Err(_) => Rend::CssErr,
            },
            Deco::Custom(ds) => {
                match apply(config::with_decorator(CustomDeco(ds.clone())), spec) {
                    Ok($c) => $body,
                    Err(_) => Rend::CssErr,
                }
            }
        }
    }};
}

/// One-shot string rendering.
pub fn render(spec: &CfgSpec, html: &[u8], width: usize) -> Rend<String> {
    guard(|| with_config!(spec, c => from_result(c.string_from_read(html, width))))
}

/// One-shot line rendering, normalised.
pub fn render_lines(spec: &CfgSpec, html: &[u8], width: usize) -> Rend<Vec<OLine>> {
    guard(|| with_config!(spec, c => from_result(c.lines_from_read(html, width)).map(conv_lines)))
}

/// How one staged render is obtained from the shared render tree.
#[derive(Clone, Copy, Debug, Serialize, Deserialize, PartialEq, Eq, Hash)]
pub enum StagedKind {
    Str,
    Lines,
    /// `render_coloured` with the identity map (rich decorator only; Lines otherwise)
    Coloured,
}

/// Parse once, build the render tree once, then render a clone of it for every entry.
pub fn staged_renders(spec: &CfgSpec, html: &[u8], widths: &[(usize, StagedKind)]) -> Rend<Vec<Rend<String>>> {
    if spec.deco == Deco::Rich {
        return guard(|| match apply(config::rich(), spec) {
            Ok(c) => {
                let dom = match c.parse_html(html) {
                    Ok(d) => d,
                    Err(e) => return Rend::Err(format!("parse_html: {:?}", e)),
                };
                let tree = match c.dom_to_render_tree(&dom) {
                    Ok(t) => t,
                    Err(e) => return Rend::Err(format!("dom_to_render_tree: {:?}", e)),
                };
                let mut out = vec![];
                for &(w, kind) in widths {
                    let r = match kind {
                        StagedKind::Str => guard(|| from_result(c.render_to_string(tree.clone(), w))),
                        StagedKind::Lines => guard(|| {
                            from_result(c.render_to_lines(tree.clone(), w)).map(|l| olines_to_string(&conv_lines(l)))
                        }),
                        StagedKind::Coloured => {
                            guard(|| from_result(c.render_coloured(tree.clone(), w, |_, s| s.to_string())))
                        }
                    };
                    out.push(r);
                }
                Rend::Ok(out)
            }
            Err(_) => Rend::CssErr,
        });
    }
    guard(|| {
        with_config!(spec, c => {
            let dom = match c.parse_html(html) { Ok(d) => d, Err(e) => return Rend::Err(format!("parse_html: {:?}", e)) };
            let tree = match c.dom_to_render_tree(&dom) { Ok(t) => t, Err(e) => return Rend::Err(format!("dom_to_render_tree: {:?}", e)) };
            let mut out = vec![];
            for &(w, kind) in widths {
                let r = match kind {
                    StagedKind::Str => guard(|| from_result(c.render_to_string(tree.clone(), w))),
                    _ => guard(|| from_result(c.render_to_lines(tree.clone(), w)).map(|l| olines_to_string(&conv_lines(l)))),
                };
                out.push(r);
            }
            Rend::Ok(out)
        })
    })
}

/// Parse the document ONCE; then for every step build a render tree from that same DOM with the
/// step's `build` configuration and render it with the step's `rend` configuration (which may
/// be a different Config, even with another decorator).
pub fn staged_shared_dom(html: &[u8], steps: &[(CfgSpec, CfgSpec, usize)]) -> Rend<Vec<Rend<String>>> {
    guard(|| {
        let dom = match config::plain().parse_html(html) {
            Ok(d) => d,
            Err(e) => return Rend::Err(format!("parse_html: {:?}", e)),
        };
        let mut out = vec![];
        for (build, rend, w) in steps {
            let tree: Rend<html2text::RenderTree> = guard(|| {
                with_config!(build, c => match c.dom_to_render_tree(&dom) {
                    Ok(t) => Rend::Ok(t),
                    Err(e) => Rend::Err(format!("dom_to_render_tree: {:?}", e)),
                })
            });
            let r = match tree {
                Rend::Ok(t) => guard(|| with_config!(rend, c => from_result(c.render_to_string(t, *w)))),
                Rend::TooNarrow => Rend::TooNarrow,
                Rend::Err(e) => Rend::Err(e),
                Rend::CssErr => Rend::CssErr,
                Rend::Panic(p) => Rend::Panic(p),
            };
            out.push(r);
        }
        Rend::Ok(out)
    })
}

fn flatten(r: Rend<Vec<Rend<String>>>) -> Rend<String> {
    match r {
        Rend::Ok(mut v) => v.pop().unwrap(),
        Rend::TooNarrow => Rend::TooNarrow,
        Rend::Err(e) => Rend::Err(e),
        Rend::CssErr => Rend::CssErr,
        Rend::Panic(p) => Rend::Panic(p),
    }
}

pub fn render_route(spec: &CfgSpec, html: &[u8], width: usize, route: Route) -> Rend<String> {
    match route {
        Route::Str => render(spec, html, width),
        Route::Lines => render_lines(spec, html, width).map(|l| olines_to_string(&l)),
        Route::StagedStr => flatten(staged_renders(spec, html, &[(width, StagedKind::Str)])),
        Route::StagedLines => flatten(staged_renders(spec, html, &[(width, StagedKind::Lines)])),
        Route::Coloured => {
            if spec.deco == Deco::Rich {
                guard(|| match apply(config::rich(), spec) {
                    Ok(c) => from_result(c.coloured(html, width, |_, s| s.to_string())),
                    Err(_) => Rend::CssErr,
                })
            } else {
                render_route(spec, html, width, Route::Lines)
            }
        }
        Route::StagedColoured => flatten(staged_renders(spec, html, &[(width, StagedKind::Coloured)])),
    }
}

/// The free functions of the crate root, which must equal their `config::` spellings.
pub fn free_fn(which: u8, html: &[u8], width: usize) -> Rend<String> {
    guard(|| match which % 3 {
        0 => from_result(html2text::from_read(html, width)),
        1 => from_result(html2text::from_read_rich(html, width)).map(|l| olines_to_string(&conv_lines(l))),
        _ => from_result(html2text::from_read_with_decorator(html, width, TrivialDecorator::new())),
    })
}

/// add_css / add_agent_css on their own.
pub fn try_add_css(css: &str, agent: bool) -> Rend<()> {
    guard(|| {
        let c = config::plain();
        let r = if agent {
            c.add_agent_css(css)
        } else {
            c.add_css(css)
        };
        match r {
            Ok(_) => Rend::Ok(()),
            Err(Error::CssParseError) => Rend::CssErr,
            Err(e) => Rend::Err(format!("{:?}", e)),
        }
    })
}

/// dom_to_parsed_style of a document.
pub fn parsed_style(html: &[u8]) -> Rend<String> {
    guard(|| {
        let c = config::plain();
        let dom = match c.parse_html(html) {
            Ok(d) => d,
            Err(e) => return Rend::Err(format!("parse_html: {:?}", e)),
        };
        from_result(html2text::dom_to_parsed_style(&dom))
    })
}
