//! Document grammar (AST), serialiser with identifying characters, proptest strategies.
use proptest::prelude::*;
use serde::{Deserialize, Serialize};
use std::collections::HashMap;
use std::sync::OnceLock;
use unicode_width::UnicodeWidthChar;

// ---------------------------------------------------------------------------------------------
// identifying characters

fn build_pool(ranges: &[(u32, u32)], want: usize) -> Vec<char> {
    let mut v = vec![];
    for &(a, b) in ranges {
        for u in a..=b {
            if let Some(c) = char::from_u32(u) {
                if c.is_alphabetic() && !c.is_whitespace() && UnicodeWidthChar::width(c) == Some(want)
                {
                    v.push(c);
                }
            }
        }
    }
    v
}

pub fn narrow_pool() -> &'static Vec<char> {
    static P: OnceLock<Vec<char>> = OnceLock::new();
    P.get_or_init(|| {
        build_pool(
            &[
                ('a' as u32, 'z' as u32),
                ('A' as u32, 'Z' as u32),
                (0xC0, 0xD6),
                (0xD8, 0xF6),
                (0xF8, 0xFF),
                (0x391, 0x3A1),
                (0x3A3, 0x3A9),
                (0x3B1, 0x3C9),
                (0x410, 0x44F),
            ],
            1,
        )
    })
}

pub fn wide_pool() -> &'static Vec<char> {
    static P: OnceLock<Vec<char>> = OnceLock::new();
    P.get_or_init(|| build_pool(&[(0x4E00, 0x4E00 + 260)], 2))
}

/// Number of distinct labels available.
pub fn max_labels() -> usize {
    narrow_pool().len().min(wide_pool().len())
}

/// Map an output character to the label (text node index) it identifies.
pub fn label_of(c: char) -> Option<usize> {
    static M: OnceLock<HashMap<char, usize>> = OnceLock::new();
    let m = M.get_or_init(|| {
        let mut m = HashMap::new();
        for (i, &c) in narrow_pool().iter().enumerate() {
            m.insert(c, i);
        }
        for (i, &c) in wide_pool().iter().enumerate() {
            m.insert(c, i);
        }
        m
    });
    m.get(&c).copied()
}

pub const COMBINING: char = '\u{301}';

// ---------------------------------------------------------------------------------------------
// AST

#[derive(Clone, Debug, Serialize, Deserialize, PartialEq, Eq, Hash, Default)]
pub struct Attrs {
    #[serde(default, skip_serializing_if = "Option::is_none")]
    pub id: Option<String>,
    #[serde(default, skip_serializing_if = "Vec::is_empty")]
    pub class: Vec<String>,
    #[serde(default, skip_serializing_if = "Option::is_none")]
    pub style: Option<String>,
}

impl Attrs {
    pub fn none() -> Attrs {
        Attrs::default()
    }
    pub fn with_id(id: &str) -> Attrs {
        Attrs {
            id: Some(id.to_string()),
            ..Default::default()
        }
    }
    pub fn is_empty(&self) -> bool {
        self.id.is_none() && self.class.is_empty() && self.style.is_none()
    }
}

#[derive(Clone, Copy, Debug, Serialize, Deserialize, PartialEq, Eq, Hash)]
pub enum Cls {
    /// width-1 letters
    N,
    /// width-2 ideographs
    W,
    /// width-1 letters, first letter of every word followed by U+0301
    C,
    /// width-2 ideographs, the first of every word followed by U+0301 (a zero-width character
    /// right after a wide one)
    V,
    /// width-1 letters; the text node *starts* with U+0301 (a combining mark as the first
    /// character of a piece, e.g. right after an inline element boundary)
    M,
}

/// A text node: words of its identifying character.
#[derive(Clone, Debug, Serialize, Deserialize, PartialEq, Eq, Hash)]
pub struct Txt {
    pub words: Vec<u8>,
    pub lead: bool,
    pub trail: bool,
    pub cls: Cls,
}

impl Txt {
    pub fn simple(n: u8) -> Txt {
        Txt {
            words: vec![n],
            lead: false,
            trail: false,
            cls: Cls::N,
        }
    }
    pub fn render(&self, label: usize) -> String {
        let mut s = String::new();
        if self.lead {
            s.push(' ');
        }
        let ch = match self.cls {
            Cls::W | Cls::V => wide_pool()[label % wide_pool().len()],
            _ => narrow_pool()[label % narrow_pool().len()],
        };
        if self.cls == Cls::M && !self.lead {
            s.push(COMBINING);
        }
        for (i, &n) in self.words.iter().enumerate() {
            if i > 0 {
                s.push(' ');
            }
            for k in 0..n.max(1) {
                s.push(ch);
                if k == 0 && matches!(self.cls, Cls::C | Cls::V) {
                    s.push(COMBINING);
                }
            }
        }
        if self.trail {
            s.push(' ');
        }
        s
    }
    /// Display width of the widest word.
    pub fn max_word_width(&self) -> usize {
        let m = self.words.iter().map(|&n| n.max(1) as usize).max().unwrap_or(0);
        if matches!(self.cls, Cls::W | Cls::V) {
            2 * m
        } else {
            m
        }
    }
}

#[derive(Clone, Copy, Debug, Serialize, Deserialize, PartialEq, Eq, Hash)]
pub enum ITag {
    Em,
    I,
    Ins,
    Strong,
    S,
    Del,
    Code,
    Span,
    Sup,
    /// elements html2text has no special handling for
    U,
    B,
    Font,
}

impl ITag {
    pub fn name(&self) -> &'static str {
        match self {
            ITag::Em => "em",
            ITag::I => "i",
            ITag::Ins => "ins",
            ITag::Strong => "strong",
            ITag::S => "s",
            ITag::Del => "del",
            ITag::Code => "code",
            ITag::Span => "span",
            ITag::Sup => "sup",
            ITag::U => "u",
            ITag::B => "b",
            ITag::Font => "font",
        }
    }
}

#[derive(Clone, Debug, Serialize, Deserialize, PartialEq, Eq, Hash)]
pub enum Inline {
    Text(Txt),
    El(ITag, Attrs, Vec<Inline>),
    /// `<a href=.. name=..>`
    A {
        href: Option<String>,
        name: Option<String>,
        attrs: Attrs,
        kids: Vec<Inline>,
    },
    Img {
        src: String,
        alt: Option<Txt>,
        attrs: Attrs,
    },
    Br,
    /// literal markup (comments etc.); must not contain visible text
    Raw(String),
}

#[derive(Clone, Debug, Serialize, Deserialize, PartialEq, Eq, Hash)]
pub enum PreTok {
    Word(u8),
    Spaces(u8),
    Tab,
}

#[derive(Clone, Debug, Serialize, Deserialize, PartialEq, Eq, Hash)]
pub struct Item {
    pub attrs: Attrs,
    pub kids: Vec<Block>,
}

#[derive(Clone, Debug, Serialize, Deserialize, PartialEq, Eq, Hash)]
pub struct DItem {
    pub dt: bool,
    pub attrs: Attrs,
    pub kids: Vec<Block>,
}

#[derive(Clone, Debug, Serialize, Deserialize, PartialEq, Eq, Hash)]
pub struct Cell {
    pub th: bool,
    pub colspan: u32,
    pub attrs: Attrs,
    pub kids: Vec<Block>,
}

#[derive(Clone, Debug, Serialize, Deserialize, PartialEq, Eq, Hash)]
pub struct Row {
    pub attrs: Attrs,
    pub cells: Vec<Cell>,
}

#[derive(Clone, Debug, Serialize, Deserialize, PartialEq, Eq, Hash)]
pub struct Table {
    pub attrs: Attrs,
    /// number of leading rows placed in `<thead>` (rest in `<tbody>` if `sections`)
    pub head_rows: usize,
    /// emit explicit thead/tbody elements
    pub sections: bool,
    pub rows: Vec<Row>,
}

#[derive(Clone, Debug, Serialize, Deserialize, PartialEq, Eq, Hash)]
pub enum Block {
    P(Attrs, Vec<Inline>),
    /// bare inline run (no wrapping element)
    Inl(Vec<Inline>),
    Div(Attrs, Vec<Block>),
    /// block content wrapped in an inline element (`<em><p>..</p><ul>..</ul></em>`)
    Wrap(ITag, Attrs, Vec<Block>),
    H(u8, Attrs, Vec<Inline>),
    Ul(Attrs, Vec<Item>),
    Ol(Attrs, Option<i64>, Vec<Item>),
    Quote(Attrs, Vec<Block>),
    Dl(Attrs, Vec<DItem>),
    Pre(Attrs, Vec<Vec<PreTok>>),
    Table(Table),
}

#[derive(Clone, Debug, Serialize, Deserialize, PartialEq, Eq, Hash, Default)]
pub struct Doc {
    pub blocks: Vec<Block>,
    /// contents of a `<style>` element placed in `<head>` (None = no head at all)
    #[serde(default, skip_serializing_if = "Option::is_none")]
    pub style: Option<String>,
    #[serde(default)]
    pub doctype: bool,
    /// where the `<style>` element goes: 0 in `<head>`, 1 first in `<body>`, 2 after the first
    /// block, 3 at the end of the body, 4 first in the body inside a `<div>`
    #[serde(default)]
    pub style_place: u8,
    /// a second `<style>` element at the end of the body
    #[serde(default, skip_serializing_if = "Option::is_none")]
    pub style2: Option<String>,
    /// a third `<style>` element after the second
    #[serde(default, skip_serializing_if = "Option::is_none")]
    pub style3: Option<String>,
}

// ---------------------------------------------------------------------------------------------
// serialiser

pub fn esc(s: &str, out: &mut String) {
    for c in s.chars() {
        match c {
            '<' => out.push_str("&lt;"),
            '>' => out.push_str("&gt;"),
            '&' => out.push_str("&amp;"),
            '"' => out.push_str("&quot;"),
            c => out.push(c),
        }
    }
}

pub struct Ser {
    pub out: String,
    pub next: usize,
}

impl Ser {
    pub fn new() -> Ser {
        Ser {
            out: String::new(),
            next: 0,
        }
    }
    fn label(&mut self) -> usize {
        let l = self.next;
        self.next += 1;
        l
    }
    fn attrs(&mut self, a: &Attrs) {
        if let Some(id) = &a.id {
            self.out.push_str(" id=\"");
            esc(id, &mut self.out);
            self.out.push('"');
        }
        if !a.class.is_empty() {
            self.out.push_str(" class=\"");
            // class lists are white-space separated: space, tab, line feed, form feed, runs and
            // leading / trailing white space (chosen by the position in the output, so that a
            // document always serialises the same way)
            const SEPS: &[&str] = &[" ", " ", "\t", "\n", "  ", " \t", "&#9;", "&#10;", "\u{c}"];
            let k = self.out.len();
            let sep = if a.class.len() >= 2 { SEPS[k % SEPS.len()] } else { " " };
            if a.class.len() >= 2 && k % 4 == 0 {
                self.out.push(' ');
            }
            for (i, c) in a.class.iter().enumerate() {
                if i > 0 {
                    self.out.push_str(sep);
                }
                esc(c, &mut self.out);
            }
            if a.class.len() >= 2 && k % 5 == 0 {
                self.out.push('\n');
            }
            self.out.push('"');
        }
        if let Some(st) = &a.style {
            self.out.push_str(" style=\"");
            esc(st, &mut self.out);
            self.out.push('"');
        }
    }
    fn open(&mut self, tag: &str, a: &Attrs) {
        self.out.push('<');
        self.out.push_str(tag);
        self.attrs(a);
        self.out.push('>');
    }
    fn close(&mut self, tag: &str) {
        self.out.push_str("</");
        self.out.push_str(tag);
        self.out.push('>');
    }
    pub fn inlines(&mut self, v: &[Inline]) {
        for i in v {
            match i {
                Inline::Text(t) => {
                    let l = self.label();
                    let s = t.render(l);
                    esc(&s, &mut self.out);
                }
                Inline::El(tag, a, kids) => {
                    self.open(tag.name(), a);
                    self.inlines(kids);
                    self.close(tag.name());
                }
                Inline::A {
                    href,
                    name,
                    attrs,
                    kids,
                } => {
                    self.out.push_str("<a");
                    if let Some(h) = href {
                        self.out.push_str(" href=\"");
                        esc(h, &mut self.out);
                        self.out.push('"');
                    }
                    if let Some(n) = name {
                        self.out.push_str(" name=\"");
                        esc(n, &mut self.out);
                        self.out.push('"');
                    }
                    self.attrs(attrs);
                    self.out.push('>');
                    self.inlines(kids);
                    self.close("a");
                }
                Inline::Img { src, alt, attrs } => {
                    self.out.push_str("<img src=\"");
                    esc(src, &mut self.out);
                    self.out.push('"');
                    if let Some(t) = alt {
                        let l = self.label();
                        self.out.push_str(" alt=\"");
                        let s = t.render(l);
                        esc(&s, &mut self.out);
                        self.out.push('"');
                    }
                    self.attrs(attrs);
                    self.out.push('>');
                }
                Inline::Br => self.out.push_str("<br>"),
                Inline::Raw(s) => self.out.push_str(s),
            }
        }
    }
    pub fn blocks(&mut self, v: &[Block]) {
        for b in v {
            self.block(b);
        }
    }
    pub fn block(&mut self, b: &Block) {
        match b {
            Block::P(a, i) => {
                self.open("p", a);
                self.inlines(i);
                self.close("p");
            }
            Block::Inl(i) => self.inlines(i),
            Block::Div(a, k) => {
                self.open("div", a);
                self.blocks(k);
                self.close("div");
            }
            Block::Wrap(t, a, k) => {
                self.open(t.name(), a);
                self.blocks(k);
                self.close(t.name());
            }
            Block::H(l, a, i) => {
                let t = format!("h{}", l);
                self.open(&t, a);
                self.inlines(i);
                self.close(&t);
            }
            Block::Ul(a, items) => {
                self.open("ul", a);
                for it in items {
                    self.open("li", &it.attrs);
                    self.blocks(&it.kids);
                    self.close("li");
                }
                self.close("ul");
            }
            Block::Ol(a, start, items) => {
                self.out.push_str("<ol");
                if let Some(s) = start {
                    self.out.push_str(&format!(" start=\"{}\"", s));
                }
                self.attrs(a);
                self.out.push('>');
                for it in items {
                    self.open("li", &it.attrs);
                    self.blocks(&it.kids);
                    self.close("li");
                }
                self.close("ol");
            }
            Block::Quote(a, k) => {
                self.open("blockquote", a);
                self.blocks(k);
                self.close("blockquote");
            }
            Block::Dl(a, items) => {
                self.open("dl", a);
                for it in items {
                    let t = if it.dt { "dt" } else { "dd" };
                    self.open(t, &it.attrs);
                    self.blocks(&it.kids);
                    self.close(t);
                }
                self.close("dl");
            }
            Block::Pre(a, lines) => {
                self.open("pre", a);
                let l = self.label();
                let ch = narrow_pool()[l % narrow_pool().len()];
                for (i, line) in lines.iter().enumerate() {
                    if i > 0 {
                        self.out.push('\n');
                    }
                    for t in line {
                        match t {
                            PreTok::Word(n) => {
                                for _ in 0..(*n).max(1) {
                                    self.out.push(ch);
                                }
                            }
                            PreTok::Spaces(n) => {
                                for _ in 0..(*n).max(1) {
                                    self.out.push(' ');
                                }
                            }
                            PreTok::Tab => self.out.push('\t'),
                        }
                    }
                }
                self.close("pre");
            }
            Block::Table(t) => {
                self.open("table", &t.attrs);
                let n = t.rows.len();
                let head = t.head_rows.min(n);
                for (ri, r) in t.rows.iter().enumerate() {
                    if t.sections {
                        if ri == 0 && head > 0 {
                            self.out.push_str("<thead>");
                        }
                        if ri == head {
                            if head > 0 {
                                self.out.push_str("</thead>");
                            }
                            self.out.push_str("<tbody>");
                        }
                    }
                    self.open("tr", &r.attrs);
                    for c in &r.cells {
                        let tag = if c.th { "th" } else { "td" };
                        self.out.push('<');
                        self.out.push_str(tag);
                        if c.colspan != 1 {
                            self.out.push_str(&format!(" colspan=\"{}\"", c.colspan));
                        }
                        self.attrs(&c.attrs);
                        self.out.push('>');
                        self.blocks(&c.kids);
                        self.close(tag);
                    }
                    self.close("tr");
                }
                if t.sections {
                    if head == n && head > 0 {
                        self.out.push_str("</thead>");
                    } else {
                        self.out.push_str("</tbody>");
                    }
                }
                self.close("table");
            }
        }
    }
}

impl Doc {
    pub fn of(blocks: Vec<Block>) -> Doc {
        Doc {
            blocks,
            style: None,
            doctype: false,
            style_place: 0,
            style2: None,
            style3: None,
        }
    }
    /// Serialise; returns the HTML and the number of labels used.
    pub fn to_html_n(&self) -> (String, usize) {
        let mut s = Ser::new();
        if self.doctype {
            s.out.push_str("<!DOCTYPE html>");
        }
        if let Some(st) = &self.style {
            let el = format!("<style>{}</style>", st);
            match self.style_place % 5 {
                0 => {
                    s.out.push_str(&format!("<html><head>{}</head><body>", el));
                    s.blocks(&self.blocks);
                }
                1 => {
                    s.out.push_str(&format!("<html><head></head><body>{}", el));
                    s.blocks(&self.blocks);
                }
                2 => {
                    s.out.push_str("<html><head></head><body>");
                    let k = 1.min(self.blocks.len());
                    s.blocks(&self.blocks[..k]);
                    s.out.push_str(&el);
                    s.blocks(&self.blocks[k..]);
                }
                3 => {
                    s.out.push_str("<html><head></head><body>");
                    s.blocks(&self.blocks);
                    s.out.push_str(&el);
                }
                _ => {
                    s.out.push_str(&format!("<html><head></head><body><div>{}</div>", el));
                    s.blocks(&self.blocks);
                }
            }
            if let Some(st2) = &self.style2 {
                s.out.push_str(&format!("<style>{}</style>", st2));
            }
            if let Some(st3) = &self.style3 {
                s.out.push_str(&format!("<style>{}</style>", st3));
            }
            s.out.push_str("</body></html>");
        } else {
            s.blocks(&self.blocks);
        }
        (s.out, s.next)
    }
    pub fn to_html(&self) -> String {
        self.to_html_n().0
    }
    pub fn valid(&self) -> bool {
        valid_blocks(&self.blocks)
    }
}

/// Whether a document satisfies the invariants of the generators (used to keep minimised
/// counter-examples inside the generated domain).
pub fn valid_blocks(v: &[Block]) -> bool {
    fn txt(t: &Txt) -> bool {
        !t.words.is_empty() && t.words.iter().all(|&n| n >= 1)
    }
    fn inl(v: &[Inline]) -> bool {
        !v.is_empty()
            && v.iter().all(|i| match i {
                Inline::Text(t) => txt(t),
                Inline::El(_, _, k) => inl(k),
                Inline::A { kids, .. } => inl(kids),
                Inline::Img { src, alt, .. } => !src.is_empty() && alt.as_ref().map(txt).unwrap_or(true),
                Inline::Br => true,
                // literal markup: white space, whole tags / comments, or one character reference
                // (the minimiser must not cut it down to stray text)
                Inline::Raw(r) => r.trim().is_empty() || (r.starts_with('<') && r.ends_with('>') && r.len() >= 4) || (r.starts_with('&') && r.ends_with(';')),
            })
    }
    !v.is_empty()
        && v.iter().all(|b| match b {
            Block::P(_, i) | Block::Inl(i) => inl(i),
            Block::H(l, _, i) => (1..=6).contains(l) && inl(i),
            Block::Div(_, k) | Block::Quote(_, k) | Block::Wrap(_, _, k) => valid_blocks(k),
            Block::Ul(_, it) | Block::Ol(_, _, it) => !it.is_empty() && it.iter().all(|x| valid_blocks(&x.kids)),
            Block::Dl(_, it) => !it.is_empty() && it.iter().all(|x| valid_blocks(&x.kids)),
            Block::Pre(_, lines) => !lines.is_empty(),
            Block::Table(t) => {
                !t.rows.is_empty()
                    && t.rows.iter().all(|r| !r.cells.is_empty() && r.cells.iter().all(|c| c.kids.is_empty() || valid_blocks(&c.kids)))
            }
        })
}

/// Whether an inline run contains visible text (a text node or an image with alt text).
pub fn inlines_visible(v: &[Inline]) -> bool {
    v.iter().any(|i| match i {
        Inline::Text(_) => true,
        Inline::El(_, _, k) => inlines_visible(k),
        Inline::A { kids, .. } => inlines_visible(kids),
        Inline::Img { alt, .. } => alt.is_some(),
        _ => false,
    })
}

/// Visit every block-level inline run (paragraphs, headings, bare runs) mutably.
pub fn for_runs_mut(v: &mut [Block], f: &mut dyn FnMut(&mut Vec<Inline>)) {
    for b in v {
        match b {
            Block::P(_, i) | Block::Inl(i) | Block::H(_, _, i) => f(i),
            Block::Div(_, k) | Block::Quote(_, k) | Block::Wrap(_, _, k) => for_runs_mut(k, f),
            Block::Ul(_, it) | Block::Ol(_, _, it) => it.iter_mut().for_each(|x| for_runs_mut(&mut x.kids, f)),
            Block::Dl(_, it) => it.iter_mut().for_each(|x| for_runs_mut(&mut x.kids, f)),
            Block::Pre(..) => {}
            Block::Table(t) => t
                .rows
                .iter_mut()
                .for_each(|r| r.cells.iter_mut().for_each(|c| for_runs_mut(&mut c.kids, f))),
        }
    }
}

/// True when every paragraph / heading / bare run has visible text.
pub fn runs_visible(v: &[Block]) -> bool {
    let mut ok = true;
    let mut w = v.to_vec();
    for_runs_mut(&mut w, &mut |i| ok &= inlines_visible(i));
    ok
}

/// Append a text node to every run without visible text; returns how many were changed.
pub fn ensure_runs_visible(v: &mut [Block]) -> usize {
    let mut n = 0;
    for_runs_mut(v, &mut |i| {
        if !inlines_visible(i) {
            i.push(Inline::Text(Txt::simple(2)));
            n += 1;
        }
    });
    n
}

pub fn blocks_to_html(b: &[Block]) -> String {
    let mut s = Ser::new();
    s.blocks(b);
    s.out
}

// ---------------------------------------------------------------------------------------------
// traversal helpers

/// Visit every Attrs of the document mutably, with the element name.
pub fn for_attrs_mut(blocks: &mut [Block], f: &mut dyn FnMut(&str, &mut Attrs)) {
    fn inl(v: &mut [Inline], f: &mut dyn FnMut(&str, &mut Attrs)) {
        for i in v {
            match i {
                Inline::El(t, a, k) => {
                    f(t.name(), a);
                    inl(k, f);
                }
                Inline::A { attrs, kids, .. } => {
                    f("a", attrs);
                    inl(kids, f);
                }
                Inline::Img { attrs, .. } => f("img", attrs),
                _ => {}
            }
        }
    }
    for b in blocks {
        match b {
            Block::P(a, i) => {
                f("p", a);
                inl(i, f);
            }
            Block::Inl(i) => inl(i, f),
            Block::Div(a, k) => {
                f("div", a);
                for_attrs_mut(k, f);
            }
            Block::Wrap(t, a, k) => {
                f(t.name(), a);
                for_attrs_mut(k, f);
            }
            Block::H(_, a, i) => {
                f("h", a);
                inl(i, f);
            }
            Block::Ul(a, it) | Block::Ol(a, _, it) => {
                f("list", a);
                for x in it {
                    f("li", &mut x.attrs);
                    for_attrs_mut(&mut x.kids, f);
                }
            }
            Block::Quote(a, k) => {
                f("blockquote", a);
                for_attrs_mut(k, f);
            }
            Block::Dl(a, it) => {
                f("dl", a);
                for x in it {
                    f(if x.dt { "dt" } else { "dd" }, &mut x.attrs);
                    for_attrs_mut(&mut x.kids, f);
                }
            }
            Block::Pre(a, _) => f("pre", a),
            Block::Table(t) => {
                f("table", &mut t.attrs);
                for r in &mut t.rows {
                    f("tr", &mut r.attrs);
                    for c in &mut r.cells {
                        f("td", &mut c.attrs);
                        for_attrs_mut(&mut c.kids, f);
                    }
                }
            }
        }
    }
}

/// Give every `Some(id)` a unique value "i<k>" in document order.
pub fn uniquify_ids(blocks: &mut [Block]) {
    let mut n = 0;
    for_attrs_mut(blocks, &mut |_, a| {
        if a.id.is_some() {
            a.id = Some(format!("i{}", n));
            n += 1;
        }
    });
}

pub fn strip_ids(blocks: &mut [Block]) {
    for_attrs_mut(blocks, &mut |_, a| a.id = None);
    fn inl(v: &mut [Inline]) {
        for i in v {
            match i {
                Inline::El(_, _, k) => inl(k),
                Inline::A { name, kids, .. } => {
                    *name = None;
                    inl(kids);
                }
                _ => {}
            }
        }
    }
    fn blk(v: &mut [Block]) {
        for b in v {
            match b {
                Block::P(_, i) | Block::Inl(i) | Block::H(_, _, i) => inl(i),
                Block::Div(_, k) | Block::Quote(_, k) | Block::Wrap(_, _, k) => blk(k),
                Block::Ul(_, it) | Block::Ol(_, _, it) => it.iter_mut().for_each(|x| blk(&mut x.kids)),
                Block::Dl(_, it) => it.iter_mut().for_each(|x| blk(&mut x.kids)),
                Block::Pre(..) => {}
                Block::Table(t) => t
                    .rows
                    .iter_mut()
                    .for_each(|r| r.cells.iter_mut().for_each(|c| blk(&mut c.kids))),
            }
        }
    }
    blk(blocks);
}

#[derive(Default, Debug, Clone)]
pub struct Census {
    pub text_nodes: usize,
    pub tables: usize,
    pub nested_tables: usize,
    pub lists: usize,
    pub quotes: usize,
    pub headings: usize,
    pub pres: usize,
    pub links: usize,
    pub imgs: usize,
    pub dls: usize,
    pub max_depth: usize,
    pub colspans: usize,
    pub strikes: usize,
    pub wide: usize,
    pub elements: usize,
}

pub fn census(blocks: &[Block]) -> Census {
    fn inl(v: &[Inline], c: &mut Census) {
        for i in v {
            match i {
                Inline::Text(t) => {
                    c.text_nodes += 1;
                    if matches!(t.cls, Cls::W | Cls::V) {
                        c.wide += 1;
                    }
                }
                Inline::El(t, _, k) => {
                    c.elements += 1;
                    if matches!(t, ITag::S | ITag::Del) {
                        c.strikes += 1;
                    }
                    inl(k, c);
                }
                Inline::A { href, kids, .. } => {
                    c.elements += 1;
                    if href.is_some() {
                        c.links += 1;
                    }
                    inl(kids, c);
                }
                Inline::Img { alt, .. } => {
                    c.elements += 1;
                    c.imgs += 1;
                    if alt.is_some() {
                        c.text_nodes += 1;
                    }
                }
                _ => {}
            }
        }
    }
    fn blk(v: &[Block], c: &mut Census, depth: usize, in_table: bool) {
        c.max_depth = c.max_depth.max(depth);
        for b in v {
            c.elements += 1;
            match b {
                Block::P(_, i) | Block::Inl(i) => inl(i, c),
                Block::H(_, _, i) => {
                    c.headings += 1;
                    inl(i, c)
                }
                Block::Div(_, k) => blk(k, c, depth, in_table),
                Block::Wrap(t, _, k) => {
                    if matches!(t, ITag::S | ITag::Del) {
                        c.strikes += 1;
                    }
                    blk(k, c, depth, in_table)
                }
                Block::Quote(_, k) => {
                    c.quotes += 1;
                    blk(k, c, depth + 1, in_table)
                }
                Block::Ul(_, it) | Block::Ol(_, _, it) => {
                    c.lists += 1;
                    for x in it {
                        blk(&x.kids, c, depth + 1, in_table)
                    }
                }
                Block::Dl(_, it) => {
                    c.dls += 1;
                    for x in it {
                        blk(&x.kids, c, depth + 1, in_table)
                    }
                }
                Block::Pre(..) => {
                    c.pres += 1;
                    c.text_nodes += 1;
                }
                Block::Table(t) => {
                    c.tables += 1;
                    if in_table {
                        c.nested_tables += 1;
                    }
                    for r in &t.rows {
                        for cell in &r.cells {
                            if cell.colspan != 1 {
                                c.colspans += 1;
                            }
                            blk(&cell.kids, c, depth + 1, true)
                        }
                    }
                }
            }
        }
    }
    let mut c = Census::default();
    blk(blocks, &mut c, 0, false);
    c
}

// ---------------------------------------------------------------------------------------------
// strategies

#[derive(Clone, Debug)]
pub struct G {
    pub depth: u32,
    pub tables: bool,
    pub pre: bool,
    pub links: bool,
    pub imgs: bool,
    pub br: bool,
    pub sup: bool,
    pub strike: bool,
    pub wide: bool,
    pub ids: bool,
    pub bare_inline: bool,
    pub dl: bool,
    pub headings: bool,
    pub unknown: bool,
    pub long_words: bool,
    pub max_inl: usize,
    pub max_blocks: usize,
    pub max_items: usize,
    pub colspans: bool,
    pub link_names: bool,
    /// block content wrapped in inline elements
    pub inline_wrap: bool,
    /// digits-only `<sup>` elements (rendered as superscript characters), some with style
    /// attributes; literal markup, so only for checks that do not identify characters
    pub digit_sup: bool,
    /// inline elements styled `white-space: pre` (literal markup)
    pub pre_inline: bool,
}

impl Default for G {
    fn default() -> G {
        G {
            depth: 2,
            tables: true,
            pre: true,
            links: true,
            imgs: true,
            br: true,
            sup: true,
            strike: true,
            wide: true,
            ids: false,
            bare_inline: true,
            dl: true,
            headings: true,
            unknown: true,
            long_words: true,
            max_inl: 3,
            max_blocks: 3,
            max_items: 3,
            colspans: true,
            link_names: false,
            inline_wrap: true,
            digit_sup: false,
            pre_inline: false,
        }
    }
}

impl G {
    pub fn no_tables(mut self) -> G {
        self.tables = false;
        self
    }
    pub fn depth(mut self, d: u32) -> G {
        self.depth = d;
        self
    }
    pub fn with_pre_inline(mut self) -> G {
        self.pre_inline = true;
        self
    }
    pub fn with_digit_sup(mut self) -> G {
        self.digit_sup = true;
        self
    }
    pub fn with_ids(mut self) -> G {
        self.ids = true;
        self.link_names = true;
        self
    }
}

pub fn attrs(g: &G) -> BoxedStrategy<Attrs> {
    if g.ids {
        prop_oneof![
            3 => Just(Attrs::none()),
            1 => Just(Attrs::with_id("x")),
        ]
        .boxed()
    } else {
        Just(Attrs::none()).boxed()
    }
}

pub fn txt(g: &G) -> BoxedStrategy<Txt> {
    let wl: BoxedStrategy<u8> = if g.long_words {
        prop_oneof![16 => 1u8..=8, 2 => 9u8..=20, 1 => 21u8..=45].boxed()
    } else {
        (1u8..=8).boxed()
    };
    let cls = if g.wide {
        prop_oneof![16 => Just(Cls::N), 4 => Just(Cls::W), 2 => Just(Cls::C), 1 => Just(Cls::M), 1 => Just(Cls::V)].boxed()
    } else {
        Just(Cls::N).boxed()
    };
    (
        prop::collection::vec(wl, 1..5),
        prop::bool::weighted(0.3),
        prop::bool::weighted(0.3),
        cls,
    )
        .prop_map(|(words, lead, trail, cls)| Txt {
            words,
            lead,
            trail,
            cls,
        })
        .boxed()
}

pub fn href() -> BoxedStrategy<String> {
    prop_oneof![
        4 => "[a-z]{1,8}".prop_map(|s| format!("http://{}/", s)),
        2 => "[a-z0-9./]{1,30}",
        1 => "[a-z]{30,70}".prop_map(|s| format!("https://example.com/{}", s)),
        1 => Just("#".to_string()),
        // a line feed inside the target (rendered as a space in the footnote)
        1 => "[a-z/.]{1,14}\n[a-z/.]{1,14}",
        // wide and combining characters in the target (footnote wrapping works on display width)
        1 => "[a-z/]{0,6}[\u{4e00}\u{4e01}\u{e9}\u{301}\u{ff21}]{1,4}[a-z/]{0,6}",
    ]
    .boxed()
}

pub fn inlines(g: &G, depth: u32) -> BoxedStrategy<Vec<Inline>> {
    inlines_in(g, depth, false)
}

/// Inline runs; `in_link` suppresses nested `<a>` (invalid HTML, re-parented by the parser).
pub fn inlines_in(g: &G, depth: u32, in_link: bool) -> BoxedStrategy<Vec<Inline>> {
    let mut leaves: Vec<(u32, BoxedStrategy<Inline>)> = vec![(12, txt(g).prop_map(Inline::Text).boxed())];
    if g.imgs {
        leaves.push((
            1,
            ("[a-z]{1,6}", prop::option::weighted(0.9, txt(g)), attrs(g))
                .prop_map(|(src, alt, attrs)| Inline::Img { src, alt, attrs })
                .boxed(),
        ));
    }
    if g.br {
        leaves.push((1, Just(Inline::Br).boxed()));
    }
    if g.digit_sup {
        leaves.push((
            1,
            prop_oneof![
                Just("<sup>2</sup>"),
                Just("<sup>10</sup>"),
                Just("<sup style=\"white-space:pre-wrap\">3</sup>"),
                Just("<sup style=\"white-space:pre\">45</sup>"),
                Just("<sup style=\"color:#123456\">6</sup>"),
                Just("<sup style=\"display:none\">7</sup>"),
                Just("<sup><b>8</b></sup>"),
                Just("<sup>9a</sup>"),
                // white space around the digits
                Just("<sup> 2</sup>"),
                Just("<sup>2 </sup>"),
                Just("<sup>\n31\n</sup>"),
                // numeric characters that are not ASCII digits
                Just("<sup>\u{b2}</sup>"),
                Just("<sup>\u{bd}</sup>"),
                Just("<sup>\u{2460}</sup>"),
                Just("<sup>\u{ff12}\u{ff13}</sup>"),
                Just("<sup>\u{663}</sup>"),

                // non-ASCII spaces (not collapsible, not breakable)
                Just("&nbsp;"),
                Just("&emsp;"),
                Just("&#x3000;"),
            ]
            .prop_map(|s| Inline::Raw(s.to_string()))
            .boxed(),
        ));
    }
    if g.pre_inline {
        // inline elements with preserved white space (need use_doc_css to take effect); only for
        // checks whose oracle does not care about white space, decoration or annotations
        leaves.push((
            1,
            prop_oneof![
                Just("<span style=\"white-space:pre\">\tz</span>"),
                Just("<span style=\"white-space:pre-wrap\">  y\t</span>"),
                Just("<code style=\"white-space:pre\">a\tb  c</code>"),
                Just("<span style=\"white-space:pre\"> </span>"),
                Just("<em style=\"white-space:pre\">\t\tq r</em>"),
            ]
            .prop_map(|s| Inline::Raw(s.to_string()))
            .boxed(),
        ));
    }
    let leaf = proptest::strategy::Union::new_weighted(leaves).boxed();
    let item: BoxedStrategy<Inline> = if depth == 0 {
        leaf
    } else {
        let sub = inlines_in(g, depth - 1, in_link);
        let mut tags = vec![ITag::Em, ITag::I, ITag::Strong, ITag::Code, ITag::Span, ITag::Ins];
        if g.strike {
            tags.push(ITag::S);
            tags.push(ITag::Del);
        }
        if g.sup {
            tags.push(ITag::Sup);
        }
        if g.unknown {
            tags.push(ITag::U);
            tags.push(ITag::B);
            tags.push(ITag::Font);
        }
        let mut opts: Vec<(u32, BoxedStrategy<Inline>)> = vec![
            (10, leaf),
            (
                6,
                (prop::sample::select(tags), attrs(g), sub.clone())
                    .prop_map(|(t, a, k)| Inline::El(t, a, k))
                    .boxed(),
            ),
        ];
        if g.links && !in_link {
            let sub = inlines_in(g, depth - 1, true);
            let name = if g.link_names {
                prop::option::weighted(0.3, Just("x".to_string())).boxed()
            } else {
                Just(None).boxed()
            };
            opts.push((
                2,
                (prop::option::weighted(0.9, href()), name, attrs(g), sub.clone())
                    .prop_map(|(href, name, attrs, kids)| Inline::A {
                        href,
                        name,
                        attrs,
                        kids,
                    })
                    .boxed(),
            ));
        }
        proptest::strategy::Union::new_weighted(opts).boxed()
    };
    prop::collection::vec(item, 1..=g.max_inl).boxed()
}

pub fn pre_lines() -> BoxedStrategy<Vec<Vec<PreTok>>> {
    let tok = prop_oneof![
        6 => (1u8..=8).prop_map(PreTok::Word),
        4 => (1u8..=5).prop_map(PreTok::Spaces),
        1 => Just(PreTok::Tab),
    ];
    prop::collection::vec(prop::collection::vec(tok, 0..6), 1..5).boxed()
}

pub fn ol_start() -> BoxedStrategy<Option<i64>> {
    prop_oneof![
        4 => Just(None),
        2 => (-100i64..=100).prop_map(Some),
        1 => prop_oneof![Just(9i64), Just(98), Just(999), Just(-1), Just(0), Just(-10)].prop_map(Some),
    ]
    .boxed()
}

pub fn items(g: &G, sub: BoxedStrategy<Vec<Block>>) -> BoxedStrategy<Vec<Item>> {
    prop::collection::vec(
        (attrs(g), sub).prop_map(|(attrs, kids)| Item { attrs, kids }),
        1..=g.max_items,
    )
    .boxed()
}

pub fn table(g: &G, content: BoxedStrategy<Vec<Block>>) -> BoxedStrategy<Block> {
    let span = if g.colspans {
        prop_oneof![7 => Just(1u32), 2 => Just(2u32), 1 => Just(3u32), 1 => Just(0u32), 1 => Just(4u32)].boxed()
    } else {
        Just(1u32).boxed()
    };
    let cell = (
        span,
        any::<bool>(),
        attrs(g),
        prop_oneof![1 => Just(vec![]), 6 => content],
    )
        .prop_map(|(colspan, th, attrs, kids)| Cell {
            th,
            colspan,
            attrs,
            kids,
        });
    let row = (attrs(g), prop::collection::vec(cell, 1..4)).prop_map(|(attrs, cells)| Row { attrs, cells });
    (
        attrs(g),
        0usize..3,
        prop::bool::weighted(0.3),
        prop::collection::vec(row, 1..4),
    )
        .prop_map(|(attrs, head_rows, sections, rows)| {
            Block::Table(Table {
                attrs,
                head_rows,
                sections,
                rows,
            })
        })
        .boxed()
}

pub fn blocks(g: &G, depth: u32) -> BoxedStrategy<Vec<Block>> {
    let mut leaves: Vec<(u32, BoxedStrategy<Block>)> = vec![(
        6,
        (attrs(g), inlines(g, 2)).prop_map(|(a, i)| Block::P(a, i)).boxed(),
    )];
    if g.bare_inline {
        leaves.push((2, inlines(g, 2).prop_map(Block::Inl).boxed()));
    }
    if g.headings {
        leaves.push((
            2,
            (1u8..=6, attrs(g), inlines(g, 1))
                .prop_map(|(l, a, i)| Block::H(l, a, i))
                .boxed(),
        ));
    }
    if g.pre {
        leaves.push((
            1,
            (attrs(g), pre_lines()).prop_map(|(a, l)| Block::Pre(a, l)).boxed(),
        ));
    }
    let leaf = proptest::strategy::Union::new_weighted(leaves).boxed();
    let item: BoxedStrategy<Block> = if depth == 0 {
        leaf
    } else {
        let sub = blocks(g, depth - 1);
        let mut opts: Vec<(u32, BoxedStrategy<Block>)> = vec![
            (8, leaf),
            (
                1,
                (attrs(g), sub.clone()).prop_map(|(a, k)| Block::Div(a, k)).boxed(),
            ),
            (
                2,
                (attrs(g), items(g, sub.clone()))
                    .prop_map(|(a, i)| Block::Ul(a, i))
                    .boxed(),
            ),
            (
                2,
                (attrs(g), ol_start(), items(g, sub.clone()))
                    .prop_map(|(a, s, i)| Block::Ol(a, s, i))
                    .boxed(),
            ),
            (
                2,
                (attrs(g), sub.clone()).prop_map(|(a, k)| Block::Quote(a, k)).boxed(),
            ),
        ];
        if g.dl {
            opts.push((
                1,
                (
                    attrs(g),
                    prop::collection::vec(
                        (any::<bool>(), attrs(g), sub.clone())
                            .prop_map(|(dt, attrs, kids)| DItem { dt, attrs, kids }),
                        1..=g.max_items,
                    ),
                )
                    .prop_map(|(a, i)| Block::Dl(a, i))
                    .boxed(),
            ));
        }
        if g.tables {
            opts.push((3, table(g, sub.clone())));
        }
        if g.inline_wrap {
            let mut tags = vec![ITag::Em, ITag::Strong, ITag::Code, ITag::Span, ITag::Ins, ITag::U];
            if g.strike {
                tags.push(ITag::S);
            }
            opts.push((1, (prop::sample::select(tags), attrs(g), sub.clone()).prop_map(|(t, a, k)| Block::Wrap(t, a, k)).boxed()));
        }
        proptest::strategy::Union::new_weighted(opts).boxed()
    };
    prop::collection::vec(item, 1..=g.max_blocks).boxed()
}

/// A whole document from the grammar (ids made unique).
pub fn doc(g: &G) -> BoxedStrategy<Doc> {
    let ids = g.ids;
    blocks(g, g.depth)
        .prop_map(move |mut b| {
            if ids {
                uniquify_ids(&mut b);
                uniquify_names(&mut b);
            }
            Doc::of(b)
        })
        .boxed()
}

/// `<a name=..>` values made unique ("n<k>").
pub fn uniquify_names(blocks: &mut [Block]) {
    fn inl(v: &mut [Inline], n: &mut usize) {
        for i in v {
            match i {
                Inline::El(_, _, k) => inl(k, n),
                Inline::A { name, kids, .. } => {
                    if name.is_some() {
                        *name = Some(format!("n{}", *n));
                        *n += 1;
                    }
                    inl(kids, n);
                }
                _ => {}
            }
        }
    }
    fn blk(v: &mut [Block], n: &mut usize) {
        for b in v {
            match b {
                Block::P(_, i) | Block::Inl(i) | Block::H(_, _, i) => inl(i, n),
                Block::Div(_, k) | Block::Quote(_, k) | Block::Wrap(_, _, k) => blk(k, n),
                Block::Ul(_, it) | Block::Ol(_, _, it) => it.iter_mut().for_each(|x| blk(&mut x.kids, n)),
                Block::Dl(_, it) => it.iter_mut().for_each(|x| blk(&mut x.kids, n)),
                Block::Pre(..) => {}
                Block::Table(t) => t
                    .rows
                    .iter_mut()
                    .for_each(|r| r.cells.iter_mut().for_each(|c| blk(&mut c.kids, n))),
            }
        }
    }
    let mut n = 0;
    blk(blocks, &mut n);
}

// ---------------------------------------------------------------------------------------------
// byte-level mutation of serialised documents

#[derive(Clone, Debug, Serialize, Deserialize, PartialEq, Eq, Hash)]
pub enum Mutation {
    Delete(u16, u8),
    Duplicate(u16, u8),
    Swap(u16, u16, u8),
    Flip(u16, u8),
    Insert(u16, u8),
    Truncate(u16),
    /// insert ` NAME="VALUE"` with one of the attributes the library reads and a generated value
    #[serde(alias = "Attr")]
    Attr(u16, u8, Vec<u8>),
}

/// attributes html2text looks at
pub const ATTR_NAMES: &[&str] = &["color", "bgcolor", "colspan", "start", "href", "src", "alt", "id", "name", "class", "style", "rowspan"];
/// alphabet of generated attribute values: digits, hex letters, signs, separators, 2-, 3- and 4-byte characters
pub const ATTR_ALPHABET: &[&str] = &["0", "1", "9", "a", "f", "F", "z", "#", "-", "+", " ", ";", ":", "%", ".", "\u{e9}", "\u{4e2d}", "\u{1F600}", "\u{301}", "&#10;", "(", ")", ",", "\u{80}", "\u{a0}", "\u{7f}", "&#128;", "\u{3000}", "\u{feff}", "r", "e", "d"];

pub fn attr_text(name: u8, val: &[u8]) -> String {
    let mut s = format!(" {}=\"", ATTR_NAMES[name as usize % ATTR_NAMES.len()]);
    for v in val {
        s.push_str(ATTR_ALPHABET[*v as usize % ATTR_ALPHABET.len()]);
    }
    s.push('"');
    s
}

pub const SPLICES: &[&str] = &[
    " colspan=0",
    " colspan=-1",
    " colspan=99999999999",
    " colspan=1000000",
    " colspan=4294967295",
    " colspan=18446744073709551615",
    " colspan=x",
    " colspan=\"\"",
    " start=9223372036854775807",
    " start=-9223372036854775808",
    " start=9223372036854775806",
    " start=18446744073709551616",
    " start=x",
    " start=-0",
    "<table>",
    "</table>",
    "<tr>",
    "<td>",
    "<td colspan=3>",
    "</td>",
    "<li>",
    "<ol start=2147483647>",
    "</ul>",
    "<pre>",
    "</pre>",
    "<br>",
    "<p>",
    "</p>",
    "<a href=",
    "<a href=\"x\">",
    "</a>",
    "<img src=q alt=\u{4e2d}\u{6587}>",
    "<sup>12</sup>",
    "<s>",
    "<!--",
    "-->",
    "<script>",
    "<style>p{display:none}</style>",
    "<template>",
    "<svg>",
    "<math>",
    "<select>",
    "<frameset>",
    "<plaintext>",
    "<textarea>",
    "&#0;",
    "&#x10FFFF;",
    "&nbsp;",
    "\u{0}",
    "\u{7}",
    "\u{1b}[0m",
    "\u{200b}",
    "\u{200d}",
    "\u{301}",
    "\u{336}",
    "\u{feff}",
    "\u{1F600}",
    "\u{4e2d}",
    "\t",
    "\r\n",
    "\u{a0}",
    "\u{2028}",
    "\u{3000}",
    "\u{ad}",
    "<dl><dt>",
    "<dd>",
    "<blockquote>",
    "<h1>",
    "<h6>",
    "<caption>",
    "<tfoot>",
    "<thead>",
    "<colgroup><col>",
    "<th>",
    " id=zz",
    " name=zz",
    " style=\"color:#f00\"",
    " class=\"a b\"",
    // legacy colour attributes (honoured with use_doc_css), well- and ill-formed
    " color=\"#00aabb\"",
    " bgcolor=00aabb",
    " color=\"\u{e9}\u{e9}\u{e9}\u{e9}\"",
    " color=red",
    " bgcolor=\"#zz\"",
    " style=\"color:red;;display:none\"",
    " style=\"height:0;overflow:hidden\"",
    " href=\"a&#10;b\"",
    "&#10;",
    "&#13;",
    // sequences whose string width differs from the sum of their character widths
    "\u{263a}\u{fe0f}",
    "\u{1F468}\u{200D}\u{1F469}\u{200D}\u{1F467}",
    "\u{644}\u{627}",
    "\u{1F1E6}\u{1F1E7}",
    "\u{1100}\u{1161}\u{11A8}",
    "\u{A4FC}\u{A4FD}",
    "\u{2764}\u{FE0E}",
    "a\u{FE0F}",
    "\u{17D2}\u{1780}",
    "<pre>\u{644}\u{627} \u{263a}\u{fe0f}</pre>",
    "<s>\u{644}\u{627}</s>",
    // empty id-bearing elements and other non-item children, e.g. directly inside a list or table
    "<sup>\u{b2}</sup>",
    "<sup>\u{bd}</sup>",
    "<sup>\u{2460}\u{ff12}</sup>",
    "<sup>12</sup>",
    "<span style=\"white-space:pre\">\tz</span>",
    "<span id=\"m\"></span>",
    "<a name=\"t\"></a>",
    "<hr id=\"h\">",
    "<img id=\"i\">",
    "<ul><a name=\"t\"></a><li>x</li><span id=\"m\"></span><li>y</li></ul>",
    "<ol><span id=\"m\"></span><li>x</li></ol>",
    "<dl><a name=\"t\"></a><dt>x</dt><span id=\"m\"></span></dl>",
    "<table><a name=\"t\"></a><tr><span id=\"m\"></span><td>x</td></tr></table>",
    "<li>stray item</li>",
    "<td>stray cell</td>",
    "<tr><td>stray row</td></tr>",
    "<dd>stray definition</dd>",
];

pub fn mutations() -> BoxedStrategy<Vec<Mutation>> {
    let m = prop_oneof![
        3 => (any::<u16>(), 1u8..40).prop_map(|(a, n)| Mutation::Delete(a, n)),
        2 => (any::<u16>(), 1u8..40).prop_map(|(a, n)| Mutation::Duplicate(a, n)),
        2 => (any::<u16>(), any::<u16>(), 1u8..20).prop_map(|(a, b, n)| Mutation::Swap(a, b, n)),
        2 => (any::<u16>(), any::<u8>()).prop_map(|(a, b)| Mutation::Flip(a, b)),
        5 => (any::<u16>(), 0u8..(SPLICES.len() as u8)).prop_map(|(a, k)| Mutation::Insert(a, k)),
        1 => any::<u16>().prop_map(Mutation::Truncate),
        3 => (any::<u16>(), 0u8..(ATTR_NAMES.len() as u8), prop::collection::vec(0u8..(ATTR_ALPHABET.len() as u8), 0..12)).prop_map(|(a, n, v)| Mutation::Attr(a, n, v)),
    ];
    prop::collection::vec(m, 1..6).boxed()
}

fn pos(i: u16, len: usize) -> usize {
    // monotone mapping so that shrinking the index shrinks the position
    ((i as usize) * (len + 1)) >> 16
}

pub fn mutate(html: &[u8], ms: &[Mutation]) -> Vec<u8> {
    let mut v = html.to_vec();
    for m in ms {
        let len = v.len();
        match m {
            Mutation::Delete(a, n) => {
                let p = pos(*a, len);
                let e = (p + *n as usize).min(len);
                v.drain(p..e);
            }
            Mutation::Duplicate(a, n) => {
                let p = pos(*a, len);
                let e = (p + *n as usize).min(len);
                let part = v[p..e].to_vec();
                let at = e;
                v.splice(at..at, part);
            }
            Mutation::Swap(a, b, n) => {
                let n = *n as usize;
                let (mut p, mut q) = (pos(*a, len), pos(*b, len));
                if p > q {
                    std::mem::swap(&mut p, &mut q);
                }
                if p + n <= q && q + n <= len {
                    for k in 0..n {
                        v.swap(p + k, q + k);
                    }
                }
            }
            Mutation::Flip(a, b) => {
                let p = pos(*a, len);
                if p < len {
                    v[p] = *b;
                }
            }
            Mutation::Insert(a, k) => {
                let p = pos(*a, len);
                let s = SPLICES[*k as usize % SPLICES.len()].as_bytes().to_vec();
                v.splice(p..p, s);
            }
            Mutation::Truncate(a) => {
                let p = pos(*a, len);
                v.truncate(p);
            }
            Mutation::Attr(a, n, val) => {
                // right after a tag name if there is one at or after the position, else at the position
                let p0 = pos(*a, len);
                let p = (p0..len)
                    .find(|i| v[*i] == b'<' && v.get(*i + 1).map_or(false, |c| c.is_ascii_alphabetic()))
                    .map(|i| {
                        let mut j = i + 1;
                        while j < len && v[j].is_ascii_alphanumeric() {
                            j += 1;
                        }
                        j
                    })
                    .unwrap_or(p0);
                v.splice(p..p, attr_text(*n, val).into_bytes());
            }
        }
    }
    v
}
