//! Sharded proptest runner, bounded-exhaustive runner, replay, evidence, known findings.
use crate::cfg::LAST_PANIC;
use proptest::strategy::{BoxedStrategy, Strategy, ValueTree};
use proptest::test_runner::{Config as PConfig, RngAlgorithm, TestCaseError, TestError, TestRng, TestRunner};
use serde::de::DeserializeOwned;
use serde::Serialize;
use serde_json::{json, Value};
use std::cell::{Cell, RefCell};
use std::collections::hash_map::DefaultHasher;
use std::collections::{BTreeMap, HashSet};
use std::hash::{Hash, Hasher};
use std::panic::{catch_unwind, AssertUnwindSafe};
use std::path::PathBuf;
use std::sync::atomic::{AtomicBool, AtomicU64, Ordering};
use std::sync::{Arc, Mutex};
use std::time::{Duration, Instant};

#[derive(Clone, Copy, Debug, PartialEq, Eq)]
pub enum Tier {
    Quick,
    Thorough,
}

impl Tier {
    pub fn name(&self) -> &'static str {
        match self {
            Tier::Quick => "quick",
            Tier::Thorough => "thorough",
        }
    }
}

#[derive(Clone, Debug)]
pub struct Ctx {
    pub seed: u64,
    pub tier: Tier,
    pub threads: usize,
    pub verif_dir: PathBuf,
    /// where the committed machinery lives (corpus, fuzz crate, known findings)
    pub home_dir: PathBuf,
    /// multiply case counts (for ad-hoc deep runs): VERIF_SCALE
    pub scale: f64,
    /// seconds without progress on one case before a shard is declared hung
    pub hang_secs: u64,
}

impl Ctx {
    pub fn pick(&self, quick: u32, thorough: u32) -> u32 {
        let n = match self.tier {
            Tier::Quick => quick,
            Tier::Thorough => thorough,
        };
        ((n as f64) * self.scale).max(1.0) as u32
    }
}

pub fn hash_of<T: Hash>(t: &T) -> u64 {
    let mut h = DefaultHasher::new();
    t.hash(&mut h);
    h.finish()
}

#[derive(Default, Debug, Clone)]
pub struct Stats {
    pub evaluations: u64,
    pub nontrivial: HashSet<u64>,
    pub classes: BTreeMap<String, u64>,
    pub excluded: BTreeMap<String, u64>,
    pub samples: Vec<Value>,
    pub nt_samples: Vec<Value>,
}

impl Stats {
    pub fn eval(&mut self) {
        self.evaluations += 1;
    }
    pub fn class(&mut self, name: &str) {
        *self.classes.entry(name.to_string()).or_insert(0) += 1;
    }
    pub fn class_n(&mut self, name: &str, n: u64) {
        *self.classes.entry(name.to_string()).or_insert(0) += n;
    }
    pub fn exclude(&mut self, name: &str) {
        *self.excluded.entry(name.to_string()).or_insert(0) += 1;
    }
    /// Record a non-trivial case (by hash of its identity).
    pub fn nontrivial<T: Hash>(&mut self, key: &T) -> bool {
        self.nontrivial.insert(hash_of(key))
    }
    pub fn sample(&mut self, f: impl FnOnce() -> Value) {
        if self.samples.len() < 2 {
            self.samples.push(f());
        }
    }
    pub fn nt_sample(&mut self, f: impl FnOnce() -> Value) {
        if self.nt_samples.len() < 2 {
            self.nt_samples.push(f());
        }
    }
    pub fn merge(&mut self, o: Stats) {
        self.evaluations += o.evaluations;
        self.nontrivial.extend(o.nontrivial);
        for (k, v) in o.classes {
            *self.classes.entry(k).or_insert(0) += v;
        }
        for (k, v) in o.excluded {
            *self.excluded.entry(k).or_insert(0) += v;
        }
        for s in o.samples {
            if self.samples.len() < 3 {
                self.samples.push(s);
            }
        }
        for s in o.nt_samples {
            if self.nt_samples.len() < 3 {
                self.nt_samples.push(s);
            }
        }
    }
}

#[derive(Debug, Clone)]
pub struct Failure {
    pub sub: String,
    pub msg: String,
    pub case: Value,
    pub hang: bool,
}

#[derive(Debug)]
pub struct SubResult {
    pub name: String,
    pub stats: Stats,
    pub failure: Option<Failure>,
    pub exhaustive: bool,
    pub wall_s: f64,
    pub note: String,
}

pub trait Sub: Send + Sync {
    fn name(&self) -> String;
    fn run(&self, ctx: &Ctx) -> SubResult;
    /// Re-run the oracle on a stored case. Err = the oracle fails.
    fn replay(&self, case: &Value) -> Result<(), String>;
}

fn shard_seed(seed: u64, sub: &str, shard: usize) -> [u8; 32] {
    let mut out = [0u8; 32];
    let h1 = hash_of(&(seed, sub, shard as u64, 0x9e3779b97f4a7c15u64));
    let h2 = hash_of(&(h1, seed, 1u8));
    let h3 = hash_of(&(h2, sub, 2u8));
    let h4 = hash_of(&(h3, shard as u64, 3u8));
    out[0..8].copy_from_slice(&h1.to_le_bytes());
    out[8..16].copy_from_slice(&h2.to_le_bytes());
    out[16..24].copy_from_slice(&h3.to_le_bytes());
    out[24..32].copy_from_slice(&h4.to_le_bytes());
    out
}

/// Run a closure, converting a panic into Err("PANIC: ..").
pub fn no_panic<R>(f: impl FnOnce() -> Result<R, String>) -> Result<R, String> {
    match catch_unwind(AssertUnwindSafe(f)) {
        Ok(r) => r,
        Err(_) => Err(format!("PANIC: {}", LAST_PANIC.with(|p| p.borrow().clone()))),
    }
}

type CheckFn<T> = dyn Fn(&T, &mut Stats) -> Result<(), String> + Send + Sync;
type StratFn<T> = dyn Fn() -> BoxedStrategy<T> + Send + Sync;
type MinFn<T> = dyn Fn(&T) -> Vec<T> + Send + Sync;

/// A generated-input sub-check driven by proptest in 16 shards.
pub struct PropSub<T> {
    pub name: &'static str,
    pub quick: u32,
    pub thorough: u32,
    pub strat: Box<StratFn<T>>,
    pub check: Box<CheckFn<T>>,
    /// candidate reductions of a failing case (structural minimisation after proptest's shrinking)
    pub minimise: Option<Box<MinFn<T>>>,
    /// domain predicate: minimised cases must stay inside the generated domain
    pub valid: Option<Box<dyn Fn(&T) -> bool + Send + Sync>>,
}

impl<T> PropSub<T>
where
    T: Clone + std::fmt::Debug + Serialize + DeserializeOwned + Send + 'static,
{
    pub fn new(
        name: &'static str,
        quick: u32,
        thorough: u32,
        strat: impl Fn() -> BoxedStrategy<T> + Send + Sync + 'static,
        check: impl Fn(&T, &mut Stats) -> Result<(), String> + Send + Sync + 'static,
    ) -> PropSub<T> {
        PropSub {
            name,
            quick,
            thorough,
            strat: Box::new(strat),
            check: Box::new(check),
            minimise: None,
            valid: None,
        }
    }
    pub fn with_validity(mut self, v: impl Fn(&T) -> bool + Send + Sync + 'static) -> Self {
        self.valid = Some(Box::new(v));
        self
    }
    pub fn with_minimiser(mut self, m: impl Fn(&T) -> Vec<T> + Send + Sync + 'static) -> Self {
        self.minimise = Some(Box::new(m));
        self
    }
    pub fn boxed(self) -> Box<dyn Sub>
    where
        T: Sync,
    {
        Box::new(self)
    }

    fn eval(&self, v: &T, stats: &mut Stats) -> Result<(), String> {
        no_panic(|| (self.check)(v, stats))
    }

    fn structural_minimise(&self, v: T, msg: &str, deadline: Instant) -> T {
        // custom candidates first (if any), then the generic JSON delta debugger
        let mut v = v;
        if let Some(m) = &self.minimise {
            let mut scratch = Stats::default();
            'outer: loop {
                if Instant::now() > deadline {
                    break;
                }
                for cand in m(&v) {
                    if Instant::now() > deadline {
                        break 'outer;
                    }
                    if self.eval(&cand, &mut scratch).is_err() {
                        v = cand;
                        continue 'outer;
                    }
                }
                break;
            }
        }
        let Ok(val) = serde_json::to_value(&v) else { return v };
        let test = |cand: &Value| -> Option<String> {
            let t: T = serde_json::from_value(cand.clone()).ok()?;
            if let Some(valid) = &self.valid {
                if !valid(&t) {
                    return None;
                }
            }
            let mut scratch = Stats::default();
            self.eval(&t, &mut scratch).err()
        };
        let min = crate::minimise::minimise(val, msg, deadline, &test);
        serde_json::from_value(min).unwrap_or(v)
    }
}

impl<T> Sub for PropSub<T>
where
    T: Clone + std::fmt::Debug + Serialize + DeserializeOwned + Send + Sync + 'static,
{
    fn name(&self) -> String {
        self.name.to_string()
    }

    fn replay(&self, case: &Value) -> Result<(), String> {
        let v: T = serde_json::from_value(case.clone()).map_err(|e| format!("REPLAY-DECODE: {}", e))?;
        let mut st = Stats::default();
        self.eval(&v, &mut st)
    }

    fn run(&self, ctx: &Ctx) -> SubResult {
        let t0 = Instant::now();
        let total = ctx.pick(self.quick, self.thorough);
        let shards = ctx.threads.max(1);
        let per = (total as usize + shards - 1) / shards;
        let stop = Arc::new(AtomicBool::new(false));
        let beats: Vec<Arc<AtomicU64>> = (0..shards).map(|_| Arc::new(AtomicU64::new(0))).collect();
        let done: Vec<Arc<AtomicBool>> = (0..shards).map(|_| Arc::new(AtomicBool::new(false))).collect();
        let currents: Vec<Arc<Mutex<Option<T>>>> = (0..shards).map(|_| Arc::new(Mutex::new(None))).collect();
        let results: Arc<Mutex<Vec<Option<(Stats, Option<(String, T)>)>>>> =
            Arc::new(Mutex::new((0..shards).map(|_| None).collect()));

        std::thread::scope(|scope| {
            for shard in 0..shards {
                let stop = stop.clone();
                let beat = beats[shard].clone();
                let fin = done[shard].clone();
                let cur = currents[shard].clone();
                let results = results.clone();
                let this = &*self;
                let seed = ctx.seed;
                std::thread::Builder::new()
                    .stack_size(64 << 20)
                    .spawn_scoped(scope, move || {
                        let mut cfg = PConfig::default();
                        cfg.cases = per as u32;
                        cfg.failure_persistence = None;
                        cfg.max_shrink_iters = 400;
                        cfg.max_shrink_time = 10_000;
                        cfg.max_global_rejects = 1_000_000;
                        cfg.verbose = 0;
                        let rng = TestRng::from_seed(RngAlgorithm::ChaCha, &shard_seed(seed, this.name, shard));
                        let mut runner = TestRunner::new_with_rng(cfg, rng);
                        let strat = (this.strat)();
                        let stats = RefCell::new(Stats::default());
                        let failed = Cell::new(false);
                        let r = runner.run(&strat, |v| {
                            if stop.load(Ordering::Relaxed) && !failed.get() {
                                return Ok(());
                            }
                            beat.store(t0.elapsed().as_millis() as u64 + 1, Ordering::Relaxed);
                            *cur.lock().unwrap() = Some(v.clone());
                            let res = if failed.get() {
                                let mut scratch = Stats::default();
                                this.eval(&v, &mut scratch)
                            } else {
                                let mut st = stats.borrow_mut();
                                st.eval();
                                this.eval(&v, &mut st)
                            };
                            match res {
                                Ok(()) => Ok(()),
                                Err(m) => {
                                    failed.set(true);
                                    Err(TestCaseError::fail(m))
                                }
                            }
                        });
                        let fail = match r {
                            Ok(()) => None,
                            Err(TestError::Fail(reason, v)) => {
                                stop.store(true, Ordering::Relaxed);
                                beat.store(t0.elapsed().as_millis() as u64 + 1, Ordering::Relaxed);
                                let v = this.structural_minimise(v, &reason.to_string(), Instant::now() + Duration::from_secs(45));
                                let mut scratch = Stats::default();
                                let msg = match this.eval(&v, &mut scratch) {
                                    Err(m) => m,
                                    Ok(()) => reason.to_string(),
                                };
                                Some((msg, v))
                            }
                            Err(TestError::Abort(reason)) => {
                                // generator rejected too much: an infrastructure problem, not a violation
                                stats.borrow_mut().class(&format!("ABORT:{}", reason));
                                None
                            }
                        };
                        results.lock().unwrap()[shard] = Some((stats.into_inner(), fail));
                        fin.store(true, Ordering::Relaxed);
                    })
                    .expect("spawn");
            }
            // watchdog
            loop {
                std::thread::sleep(Duration::from_millis(200));
                if done.iter().all(|d| d.load(Ordering::Relaxed)) {
                    break;
                }
                let now = t0.elapsed().as_millis() as u64;
                for s in 0..shards {
                    if done[s].load(Ordering::Relaxed) {
                        continue;
                    }
                    let b = beats[s].load(Ordering::Relaxed);
                    if b > 0 && now.saturating_sub(b) > ctx.hang_secs * 1000 {
                        let c = currents[s].lock().unwrap().clone();
                        if let Some(c) = c {
                            // We cannot stop the stuck thread; the handler confirms the hang in a fresh
                            // process and, if confirmed, reports and leaves the process.  It returns only
                            // when the case finishes there (a slow machine, not a hang).
                            let case = serde_json::to_value(&c).unwrap_or(Value::Null);
                            let f = Failure {
                                sub: self.name.to_string(),
                                msg: format!("HANG: one case made no progress for {} s", ctx.hang_secs),
                                case,
                                hang: true,
                            };
                            HANG_SLOT.lock().unwrap().replace(f);
                            (HANG_HANDLER.lock().unwrap().as_ref().expect("hang handler"))();
                            beats[s].store(t0.elapsed().as_millis() as u64 + 1, Ordering::Relaxed);
                        }
                    }
                }
            }
        });
        let mut stats = Stats::default();
        let mut failure = None;
        let mut res = results.lock().unwrap();
        for (_i, slot) in res.iter_mut().enumerate() {
            if let Some((st, fail)) = slot.take() {
                stats.merge(st);
                if failure.is_none() {
                    if let Some((msg, v)) = fail {
                        failure = Some(Failure {
                            sub: self.name.to_string(),
                            msg,
                            case: serde_json::to_value(&v).unwrap_or(Value::Null),
                            hang: false,
                        });
                    }
                }
            }
        }
        SubResult {
            name: self.name.to_string(),
            stats,
            failure,
            exhaustive: false,
            wall_s: t0.elapsed().as_secs_f64(),
            note: String::new(),
        }
    }
}

pub static HANG_SLOT: Mutex<Option<Failure>> = Mutex::new(None);
pub static HANG_HANDLER: Mutex<Option<Box<dyn Fn() + Send + Sync>>> = Mutex::new(None);

/// A deterministic enumeration (bounded-exhaustive or corpus replay) spread over threads.
pub struct EnumSub<T> {
    pub name: &'static str,
    /// items for the tier
    pub items: Box<dyn Fn(&Ctx) -> Vec<T> + Send + Sync>,
    pub check: Box<CheckFn<T>>,
    pub exhaustive: bool,
    /// per-item no-progress limit for this sub-check (default: the context's hang_secs)
    pub hang_secs: Option<u64>,
}

impl<T> EnumSub<T>
where
    T: Clone + std::fmt::Debug + Serialize + DeserializeOwned + Send + Sync + 'static,
{
    pub fn new(
        name: &'static str,
        exhaustive: bool,
        items: impl Fn(&Ctx) -> Vec<T> + Send + Sync + 'static,
        check: impl Fn(&T, &mut Stats) -> Result<(), String> + Send + Sync + 'static,
    ) -> EnumSub<T> {
        EnumSub {
            name,
            items: Box::new(items),
            check: Box::new(check),
            exhaustive,
            hang_secs: None,
        }
    }
    pub fn with_hang_secs(mut self, s: u64) -> Self {
        self.hang_secs = Some(s);
        self
    }
    pub fn boxed(self) -> Box<dyn Sub> {
        Box::new(self)
    }
}

impl<T> Sub for EnumSub<T>
where
    T: Clone + std::fmt::Debug + Serialize + DeserializeOwned + Send + Sync + 'static,
{
    fn name(&self) -> String {
        self.name.to_string()
    }
    fn replay(&self, case: &Value) -> Result<(), String> {
        let v: T = serde_json::from_value(case.clone()).map_err(|e| format!("REPLAY-DECODE: {}", e))?;
        let mut st = Stats::default();
        no_panic(|| (self.check)(&v, &mut st))
    }
    fn run(&self, ctx: &Ctx) -> SubResult {
        let t0 = Instant::now();
        let items = (self.items)(ctx);
        let n = items.len();
        let shards = ctx.threads.max(1);
        let next = AtomicU64::new(0);
        let stop = AtomicBool::new(false);
        let out: Mutex<(Stats, Option<(usize, String)>)> = Mutex::new((Stats::default(), None));
        // per worker: (heartbeat in ms since start + 1, index of the item being evaluated + 1)
        let beats: Vec<(AtomicU64, AtomicU64)> = (0..shards).map(|_| (AtomicU64::new(0), AtomicU64::new(0))).collect();
        let finished = AtomicU64::new(0);
        std::thread::scope(|scope| {
            for t in 0..shards {
                let beats = &beats;
                let finished = &finished;
                let next = &next;
                let stop = &stop;
                let out = &out;
                let items = &items;
                std::thread::Builder::new()
                    .stack_size(64 << 20)
                    .spawn_scoped(scope, move || {
                        let mut st = Stats::default();
                        let mut fail: Option<(usize, String)> = None;
                        loop {
                            if stop.load(Ordering::Relaxed) {
                                break;
                            }
                            let i = next.fetch_add(64, Ordering::Relaxed) as usize;
                            if i >= n {
                                break;
                            }
                            for k in i..(i + 64).min(n) {
                                beats[t].1.store(k as u64 + 1, Ordering::Relaxed);
                                beats[t].0.store(t0.elapsed().as_millis() as u64 + 1, Ordering::Relaxed);
                                st.eval();
                                if let Err(m) = no_panic(|| (self.check)(&items[k], &mut st)) {
                                    fail = Some((k, m));
                                    stop.store(true, Ordering::Relaxed);
                                    break;
                                }
                            }
                            if fail.is_some() {
                                break;
                            }
                        }
                        beats[t].0.store(0, Ordering::Relaxed);
                        let mut o = out.lock().unwrap();
                        o.0.merge(st);
                        if let Some((k, m)) = fail {
                            if o.1.as_ref().map(|(k0, _)| k < *k0).unwrap_or(true) {
                                o.1 = Some((k, m));
                            }
                        }
                        finished.fetch_add(1, Ordering::Relaxed);
                    })
                    .expect("spawn");
            }
            // watchdog: an item that makes no progress cannot be interrupted; report and leave
            loop {
                std::thread::sleep(Duration::from_millis(100));
                if finished.load(Ordering::Relaxed) as usize == shards {
                    break;
                }
                let now = t0.elapsed().as_millis() as u64;
                for t in 0..shards {
                    let b = beats[t].0.load(Ordering::Relaxed);
                    let k = beats[t].1.load(Ordering::Relaxed);
                    let limit = self.hang_secs.unwrap_or(ctx.hang_secs);
                    if b > 0 && k > 0 && now.saturating_sub(b) > limit * 1000 {
                        let f = Failure {
                            sub: self.name.to_string(),
                            msg: format!("HANG: one case made no progress for {} s", limit),
                            case: serde_json::to_value(&items[k as usize - 1]).unwrap_or(Value::Null),
                            hang: true,
                        };
                        HANG_SLOT.lock().unwrap().replace(f);
                        (HANG_HANDLER.lock().unwrap().as_ref().expect("hang handler"))();
                        // the handler returned: the item finishes in a fresh process, so this is a slow
                        // machine; allow another period (compare-exchange: the worker may have moved on)
                        let _ = beats[t].0.compare_exchange(b, t0.elapsed().as_millis() as u64 + 1, Ordering::Relaxed, Ordering::Relaxed);
                    }
                }
            }
        });
        let (stats, fail) = out.into_inner().unwrap();
        let failure = fail.map(|(k, msg)| Failure {
            sub: self.name.to_string(),
            msg,
            case: serde_json::to_value(&items[k]).unwrap_or(Value::Null),
            hang: false,
        });
        SubResult {
            name: self.name.to_string(),
            stats,
            failure,
            exhaustive: self.exhaustive,
            wall_s: t0.elapsed().as_secs_f64(),
            note: format!("{} items enumerated", n),
        }
    }
}

/// Generate one value from a strategy with a fixed seed (used by enumerators needing samples).
pub fn sample_strategy<T: std::fmt::Debug>(s: &BoxedStrategy<T>, seed: u64, n: usize) -> Vec<T> {
    let rng = TestRng::from_seed(RngAlgorithm::ChaCha, &shard_seed(seed, "sample", 0));
    let mut runner = TestRunner::new_with_rng(PConfig::default(), rng);
    (0..n)
        .filter_map(|_| s.new_tree(&mut runner).ok().map(|t| t.current()))
        .collect()
}

// ---------------------------------------------------------------------------------------------
// property description, known findings, evidence

pub struct Property {
    pub id: &'static str,
    pub level: &'static str,
    pub rule: &'static str,
    pub assumptions: Vec<&'static str>,
    pub subs: Vec<Box<dyn Sub>>,
    /// properties for which a hang counts as a violation
    pub hang_is_violation: bool,
}

#[derive(Debug, Clone)]
pub struct KnownFinding {
    pub property: String,
    pub id: String,
    pub replay: String,
    pub text: String,
}

pub fn load_known_findings(verif: &std::path::Path) -> Vec<KnownFinding> {
    let p = verif.join("KNOWN_FINDINGS.txt");
    let Ok(s) = std::fs::read_to_string(p) else { return vec![] };
    let mut v = vec![];
    for line in s.lines() {
        let line = line.trim();
        if !line.starts_with("open:") {
            continue;
        }
        let mut kf = KnownFinding {
            property: String::new(),
            id: String::new(),
            replay: String::new(),
            text: String::new(),
        };
        let (head, text) = match line.split_once(" :: ") {
            Some((h, t)) => (h, t),
            None => (line, ""),
        };
        kf.text = text.to_string();
        for tok in head.split_whitespace() {
            if let Some(x) = tok.strip_prefix("property=") {
                kf.property = x.to_string();
            } else if let Some(x) = tok.strip_prefix("id=") {
                kf.id = x.to_string();
            } else if let Some(x) = tok.strip_prefix("replay=") {
                kf.replay = x.to_string();
            }
        }
        v.push(kf);
    }
    v
}

pub fn write_replay(ctx: &Ctx, prop: &str, f: &Failure) -> PathBuf {
    let dir = ctx.verif_dir.join("replays").join(prop);
    let _ = std::fs::create_dir_all(&dir);
    let h = hash_of(&(f.sub.clone(), f.case.to_string()));
    let path = dir.join(format!("{}-{:016x}.json", f.sub, h));
    let v = json!({
        "property": prop,
        "sub": f.sub,
        "msg": f.msg,
        "seed": ctx.seed,
        "tier": ctx.tier.name(),
        "case": f.case,
    });
    let _ = std::fs::write(&path, serde_json::to_string_pretty(&v).unwrap());
    path
}

pub fn replay_file(prop: &Property, path: &std::path::Path) -> Result<Result<(), String>, String> {
    let s = std::fs::read_to_string(path).map_err(|e| format!("cannot read {}: {}", path.display(), e))?;
    let v: Value = serde_json::from_str(&s).map_err(|e| format!("bad json {}: {}", path.display(), e))?;
    let sub = v["sub"].as_str().unwrap_or("");
    let Some(s) = prop.subs.iter().find(|s| s.name() == sub) else {
        return Err(format!("no sub-check {} in {}", sub, prop.id));
    };
    Ok(s.replay(&v["case"]))
}

pub struct RunOutcome {
    pub violations: Vec<(Failure, PathBuf)>,
    pub known: Vec<String>,
    pub exit: i32,
}

pub fn write_evidence(
    ctx: &Ctx,
    prop: &Property,
    results: &[SubResult],
    known_lines: &[String],
    violations: usize,
    wall: f64,
) {
    let mut evals = 0u64;
    let mut nt = 0u64;
    let mut samples = vec![];
    let mut per_sub = serde_json::Map::new();
    let mut any_exh = false;
    let mut all_exh = !results.is_empty();
    for r in results {
        evals += r.stats.evaluations;
        nt += r.stats.nontrivial.len() as u64;
        any_exh |= r.exhaustive;
        all_exh &= r.exhaustive;
        for s in r.stats.nt_samples.iter().chain(r.stats.samples.iter()).take(3) {
            samples.push(json!({"sub": r.name, "case": s}));
        }
        per_sub.insert(
            r.name.clone(),
            json!({
                "evaluations": r.stats.evaluations,
                "distinct_nontrivial": r.stats.nontrivial.len(),
                "classes": r.stats.classes,
                "excluded_known": r.stats.excluded,
                "exhaustive": r.exhaustive,
                "wall_s": (r.wall_s * 100.0).round() / 100.0,
                "note": r.note,
                "failed": r.failure.is_some(),
            }),
        );
    }
    let ev = json!({
        "property_id": prop.id,
        "tier": ctx.tier.name(),
        "seed": ctx.seed,
        "level": prop.level,
        "coverage": {
            "evaluations": evals,
            "distinct_nontrivial": nt,
            "rule": prop.rule,
            "samples": samples,
            "exhaustive": all_exh,
            "exhaustive_subchecks": results.iter().filter(|r| r.exhaustive).map(|r| r.name.clone()).collect::<Vec<_>>(),
            "any_exhaustive": any_exh,
            "sub_checks": per_sub,
            "explanation": prop.rule,
        },
        "assumptions": prop.assumptions,
        "known_findings_reported": known_lines,
        "wall_s": (wall * 100.0).round() / 100.0,
        "violations": violations,
    });
    let dir = ctx.verif_dir.join("evidence");
    let _ = std::fs::create_dir_all(&dir);
    let path = dir.join(format!("{}.json", prop.id));
    let tmp = dir.join(format!("{}.json.tmp", prop.id));
    std::fs::write(&tmp, serde_json::to_string_pretty(&ev).unwrap()).expect("write evidence");
    std::fs::rename(&tmp, &path).expect("rename evidence");
}

/// Run every sub-check of a property, known findings first. Returns the process exit code.
pub fn run_property(ctx: &Ctx, prop: &Property, only_sub: Option<&str>) -> i32 {
    let t0 = Instant::now();
    let mut known_lines = vec![];
    // known findings: replay each stored repro
    for kf in load_known_findings(&ctx.home_dir) {
        if kf.property != prop.id {
            continue;
        }
        let path = ctx.home_dir.join(&kf.replay);
        match replay_file(prop, &path) {
            Ok(Err(_)) => {
                let line = format!("KNOWN-FINDING: property={} id={} {}", prop.id, kf.id, kf.text);
                println!("{}", line);
                known_lines.push(line);
            }
            Ok(Ok(())) => {
                println!(
                    "note: known finding {} no longer reproduces (replay {} passes)",
                    kf.id, kf.replay
                );
            }
            Err(e) => {
                println!("note: known finding {} could not be replayed: {}", kf.id, e);
            }
        }
    }

    // hang handling: a stuck shard cannot be stopped, so the handler finishes the run itself
    {
        let ctx2 = ctx.clone();
        let id = prop.id;
        let level = prop.level;
        let hang_is_violation = prop.hang_is_violation;
        *HANG_HANDLER.lock().unwrap() = Some(Box::new(move || {
            let f = HANG_SLOT.lock().unwrap().clone().expect("hang slot");
            let path = write_replay(&ctx2, id, &f);
            // Confirmation: the same case alone in a fresh process.  Only a case that does not finish
            // there either (within a limit several times the watchdog period) is a hang; on a heavily
            // loaded machine the in-process watchdog can fire for a case that is merely slow.
            if let Some(secs) = confirm_hang_in_child(id, ctx2.tier.name(), &path, ctx2.hang_secs.max(60) * 3) {
                println!(
                    "note: watchdog fired in sub-check {} but the case finished in {:.1} s in a fresh process (slow machine); continuing",
                    f.sub, secs
                );
                let _ = std::fs::remove_file(&path);
                return;
            }
            let ev = json!({
                "property_id": id, "tier": ctx2.tier.name(), "seed": ctx2.seed, "level": level,
                "coverage": {"evaluations": 1, "distinct_nontrivial": 0, "rule": "run ended by hang watchdog", "samples": [f.case], "explanation": "run ended by hang watchdog"},
                "wall_s": 0.0, "violations": if hang_is_violation {1} else {0},
            });
            let dir = ctx2.verif_dir.join("evidence");
            let _ = std::fs::create_dir_all(&dir);
            let _ = std::fs::write(dir.join(format!("{}.json", id)), serde_json::to_string_pretty(&ev).unwrap());
            if hang_is_violation {
                println!("{}: {}", f.sub, crate::util::printable(&f.msg));
                println!("VIOLATION property={} replay={}", id, path.display());
                std::process::exit(1);
            } else {
                println!(
                    "INCONCLUSIVE property={} sub={} hang watchdog fired (replay={}); hangs are decided by C01/C17",
                    id, f.sub, path.display()
                );
                std::process::exit(2);
            }
        }));
    }

    let mut results = vec![];
    let mut violations: Vec<(Failure, PathBuf)> = vec![];
    for sub in &prop.subs {
        if let Some(o) = only_sub {
            if sub.name() != o {
                continue;
            }
        }
        let r = sub.run(ctx);
        println!(
            "[{}/{}] {} evaluations, {} distinct non-trivial, {:.1}s{}{}",
            prop.id,
            r.name,
            r.stats.evaluations,
            r.stats.nontrivial.len(),
            r.wall_s,
            if r.exhaustive { " (exhaustive)" } else { "" },
            if r.failure.is_some() { " FAILED" } else { "" }
        );
        if let Some(f) = &r.failure {
            let path = write_replay(ctx, prop.id, f);
            println!("  {}: {}", f.sub, crate::util::printable(&crate::util::short(&f.msg, 1500)).replace('\n', "\n    "));
            violations.push((f.clone(), path));
        }
        results.push(r);
    }
    let wall = t0.elapsed().as_secs_f64();
    write_evidence(ctx, prop, &results, &known_lines, violations.len(), wall);
    if violations.is_empty() {
        println!("OK property={} tier={} seed={} wall={:.1}s", prop.id, ctx.tier.name(), ctx.seed, wall);
        0
    } else {
        for (_, p) in &violations {
            println!("VIOLATION property={} replay={}", prop.id, p.display());
        }
        1
    }
}

/// Replay one file; exit code contract as for checks.
/// Runs `check <id> --replay <path>` in a child process.  Some(seconds) if the child exited with status 0
/// (the case terminates and passes) within `limit_s`; None if it is still running then (it is killed), or
/// exits otherwise (the replay itself reports a failure), or cannot be started.
fn confirm_hang_in_child(id: &str, tier: &str, path: &std::path::Path, limit_s: u64) -> Option<f64> {
    let exe = std::env::current_exe().ok()?;
    let t0 = Instant::now();
    let mut child = std::process::Command::new(exe)
        .args([id, "--tier", tier, "--replay"])
        .arg(path)
        .stdout(std::process::Stdio::null())
        .stderr(std::process::Stdio::null())
        .spawn()
        .ok()?;
    loop {
        match child.try_wait() {
            Ok(Some(st)) => return if st.success() { Some(t0.elapsed().as_secs_f64()) } else { None },
            Ok(None) => {}
            Err(_) => return None,
        }
        if t0.elapsed().as_secs() > limit_s {
            let _ = child.kill();
            let _ = child.wait();
            return None;
        }
        std::thread::sleep(Duration::from_millis(100));
    }
}

pub fn run_replay(prop: &Property, path: &std::path::Path) -> i32 {
    match replay_file(prop, path) {
        Ok(Ok(())) => {
            println!("replay passes: {}", path.display());
            0
        }
        Ok(Err(m)) => {
            println!("{}", crate::util::printable(&m));
            println!("VIOLATION property={} replay={}", prop.id, path.display());
            1
        }
        Err(e) => {
            println!("replay error: {}", e);
            2
        }
    }
}
