//! Independent oracle DOM: an arena-based html5ever TreeSink written for the harness.
use html5ever::interface::tree_builder::{ElementFlags, NodeOrText, QuirksMode, TreeSink};
use html5ever::tendril::{StrTendril, TendrilSink};
use html5ever::{parse_document, Attribute, ExpandedName, ParseOpts, QualName};
use std::borrow::Cow;
use std::cell::RefCell;

#[derive(Debug, Clone)]
pub enum Kind {
    Document,
    Doctype,
    Text(String),
    Comment(String),
    Elem {
        name: QualName,
        attrs: Vec<(String, String)>,
        template: Option<usize>,
        mathml_ip: bool,
    },
    Pi,
}

#[derive(Debug, Clone)]
pub struct ONode {
    pub kind: Kind,
    pub parent: Option<usize>,
    pub children: Vec<usize>,
}

#[derive(Debug, Default)]
pub struct Arena {
    pub nodes: Vec<ONode>,
}

pub struct Sink {
    arena: RefCell<Arena>,
    names: RefCell<Vec<Box<QualName>>>, // copies of element names handed out by elem_name
}

impl Sink {
    fn new() -> Sink {
        let mut a = Arena::default();
        a.nodes.push(ONode {
            kind: Kind::Document,
            parent: None,
            children: vec![],
        });
        Sink {
            arena: RefCell::new(a),
            names: RefCell::new(vec![]),
        }
    }
    fn new_node(&self, kind: Kind) -> usize {
        let mut a = self.arena.borrow_mut();
        a.nodes.push(ONode {
            kind,
            parent: None,
            children: vec![],
        });
        a.nodes.len() - 1
    }
    fn detach(&self, t: usize) {
        let mut a = self.arena.borrow_mut();
        if let Some(p) = a.nodes[t].parent.take() {
            a.nodes[p].children.retain(|&c| c != t);
        }
    }
    fn append_text_to(&self, node: usize, text: &str) -> bool {
        let mut a = self.arena.borrow_mut();
        if let Kind::Text(ref mut s) = a.nodes[node].kind {
            s.push_str(text);
            true
        } else {
            false
        }
    }
}

impl TreeSink for Sink {
    type Handle = usize;
    type Output = Arena;
    type ElemName<'a> = ExpandedName<'a>;

    fn finish(self) -> Arena {
        self.arena.into_inner()
    }
    fn parse_error(&self, _msg: Cow<'static, str>) {}
    fn get_document(&self) -> usize {
        0
    }
    fn elem_name<'a>(&'a self, target: &'a usize) -> ExpandedName<'a> {
        let a = self.arena.borrow();
        if let Kind::Elem { ref name, .. } = a.nodes[*target].kind {
            // Keep a boxed copy alive for as long as the sink lives (the arena's Vec may move
            // its nodes), and hand out a reference to the box's stable address.
            let boxed: Box<QualName> = Box::new(name.clone());
            let ptr: *const QualName = &*boxed;
            self.names.borrow_mut().push(boxed);
            // SAFETY: the box is owned by `self.names`, which is only dropped with the sink, and is
            // never mutated; the returned reference cannot outlive `&'a self`.
            let r: &'a QualName = unsafe { &*ptr };
            r.expanded()
        } else {
            panic!("not an element")
        }
    }
    fn create_element(&self, name: QualName, attrs: Vec<Attribute>, flags: ElementFlags) -> usize {
        let template = if flags.template {
            Some(self.new_node(Kind::Document))
        } else {
            None
        };
        self.new_node(Kind::Elem {
            name,
            attrs: attrs
                .into_iter()
                .map(|a| (a.name.local.to_string(), a.value.to_string()))
                .collect(),
            template,
            mathml_ip: flags.mathml_annotation_xml_integration_point,
        })
    }
    fn create_comment(&self, text: StrTendril) -> usize {
        self.new_node(Kind::Comment(text.to_string()))
    }
    fn create_pi(&self, _target: StrTendril, _data: StrTendril) -> usize {
        self.new_node(Kind::Pi)
    }
    fn append(&self, parent: &usize, child: NodeOrText<usize>) {
        match child {
            NodeOrText::AppendText(t) => {
                let last = self.arena.borrow().nodes[*parent].children.last().copied();
                if let Some(l) = last {
                    if self.append_text_to(l, &t) {
                        return;
                    }
                }
                let n = self.new_node(Kind::Text(t.to_string()));
                let mut a = self.arena.borrow_mut();
                a.nodes[n].parent = Some(*parent);
                a.nodes[*parent].children.push(n);
            }
            NodeOrText::AppendNode(n) => {
                self.detach(n);
                let mut a = self.arena.borrow_mut();
                a.nodes[n].parent = Some(*parent);
                a.nodes[*parent].children.push(n);
            }
        }
    }
    fn append_before_sibling(&self, sibling: &usize, child: NodeOrText<usize>) {
        let parent = self.arena.borrow().nodes[*sibling]
            .parent
            .expect("no parent");
        let idx = self.arena.borrow().nodes[parent]
            .children
            .iter()
            .position(|&c| c == *sibling)
            .unwrap();
        let n = match child {
            NodeOrText::AppendText(t) => {
                if idx > 0 {
                    let prev = self.arena.borrow().nodes[parent].children[idx - 1];
                    if self.append_text_to(prev, &t) {
                        return;
                    }
                }
                self.new_node(Kind::Text(t.to_string()))
            }
            NodeOrText::AppendNode(n) => {
                self.detach(n);
                n
            }
        };
        // index may have shifted if n was an earlier sibling
        let idx = self.arena.borrow().nodes[parent]
            .children
            .iter()
            .position(|&c| c == *sibling)
            .unwrap();
        let mut a = self.arena.borrow_mut();
        a.nodes[n].parent = Some(parent);
        a.nodes[parent].children.insert(idx, n);
    }
    fn append_based_on_parent_node(&self, element: &usize, prev: &usize, child: NodeOrText<usize>) {
        let has_parent = self.arena.borrow().nodes[*element].parent.is_some();
        if has_parent {
            self.append_before_sibling(element, child);
        } else {
            self.append(prev, child);
        }
    }
    fn append_doctype_to_document(&self, _n: StrTendril, _p: StrTendril, _s: StrTendril) {
        let n = self.new_node(Kind::Doctype);
        let mut a = self.arena.borrow_mut();
        a.nodes[n].parent = Some(0);
        a.nodes[0].children.push(n);
    }
    fn get_template_contents(&self, target: &usize) -> usize {
        if let Kind::Elem {
            template: Some(t), ..
        } = self.arena.borrow().nodes[*target].kind
        {
            t
        } else {
            panic!("not a template")
        }
    }
    fn same_node(&self, x: &usize, y: &usize) -> bool {
        x == y
    }
    fn set_quirks_mode(&self, _mode: QuirksMode) {}
    fn add_attrs_if_missing(&self, target: &usize, attrs: Vec<Attribute>) {
        let mut a = self.arena.borrow_mut();
        if let Kind::Elem {
            attrs: ref mut existing,
            ..
        } = a.nodes[*target].kind
        {
            for at in attrs {
                let n = at.name.local.to_string();
                if !existing.iter().any(|(k, _)| *k == n) {
                    existing.push((n, at.value.to_string()));
                }
            }
        }
    }
    fn remove_from_parent(&self, target: &usize) {
        self.detach(*target);
    }
    fn reparent_children(&self, node: &usize, new_parent: &usize) {
        let mut a = self.arena.borrow_mut();
        let ch = std::mem::take(&mut a.nodes[*node].children);
        for &c in &ch {
            a.nodes[c].parent = Some(*new_parent);
        }
        a.nodes[*new_parent].children.extend(ch);
    }
    fn is_mathml_annotation_xml_integration_point(&self, target: &usize) -> bool {
        if let Kind::Elem { mathml_ip, .. } = self.arena.borrow().nodes[*target].kind {
            mathml_ip
        } else {
            false
        }
    }
}

pub fn parse(bytes: &[u8]) -> Arena {
    let mut opts = ParseOpts::default();
    opts.tree_builder.drop_doctype = true;
    let mut input = bytes;
    parse_document(Sink::new(), opts)
        .from_utf8()
        .read_from(&mut input)
        .unwrap()
}

impl Arena {
    /// Local name of an element in the HTML namespace (None for text, foreign elements, ...).
    /// html2text only gives meaning to HTML-namespace elements; `<svg><style>` is just a container.
    pub fn name(&self, n: usize) -> Option<&str> {
        if let Kind::Elem { ref name, .. } = self.nodes[n].kind {
            if &*name.ns == "http://www.w3.org/1999/xhtml" {
                return Some(&name.local);
            }
        }
        None
    }
    pub fn is_elem(&self, n: usize) -> bool {
        matches!(self.nodes[n].kind, Kind::Elem { .. })
    }
    /// Local name regardless of namespace.
    pub fn local_any(&self, n: usize) -> Option<&str> {
        if let Kind::Elem { ref name, .. } = self.nodes[n].kind {
            Some(&name.local)
        } else {
            None
        }
    }
    pub fn parent(&self, n: usize) -> Option<usize> {
        self.nodes[n].parent
    }
    pub fn children(&self, n: usize) -> &[usize] {
        &self.nodes[n].children
    }
    /// Elements html2text drops together with their subtree.
    pub fn is_ignored_elem(&self, n: usize) -> bool {
        matches!(self.name(n), Some("head" | "script" | "style" | "link" | "meta" | "hr"))
    }
    /// `img` that html2text renders: non-empty alt and non-empty src.
    pub fn img_alt(&self, n: usize) -> Option<&str> {
        if self.name(n) == Some("img") {
            let alt = self.attr(n, "alt").unwrap_or("");
            let src = self.attr(n, "src").unwrap_or("");
            if !alt.is_empty() && !src.is_empty() {
                return Some(alt);
            }
        }
        None
    }
    /// Text items (text nodes and rendered img alts) in document order: (node, text).
    pub fn text_items(&self) -> Vec<(usize, String)> {
        let mut out = vec![];
        let mut stack = vec![0usize];
        while let Some(n) = stack.pop() {
            match &self.nodes[n].kind {
                Kind::Text(t) => out.push((n, t.clone())),
                Kind::Elem { .. } => {
                    if self.is_ignored_elem(n) {
                        continue;
                    }
                    if self.name(n) == Some("img") {
                        if let Some(a) = self.img_alt(n) {
                            out.push((n, a.to_string()));
                        }
                        continue;
                    }
                    for &c in self.nodes[n].children.iter().rev() {
                        stack.push(c);
                    }
                }
                Kind::Document => {
                    for &c in self.nodes[n].children.iter().rev() {
                        stack.push(c);
                    }
                }
                _ => {}
            }
        }
        out
    }
    /// Does the subtree contain visible (non-whitespace, non-control) text?
    pub fn has_visible_text(&self, n: usize) -> bool {
        let mut stack = vec![n];
        while let Some(k) = stack.pop() {
            match &self.nodes[k].kind {
                Kind::Text(t) => {
                    if t.chars().any(crate::util::is_visible) {
                        return true;
                    }
                }
                Kind::Elem { .. } => {
                    if self.is_ignored_elem(k) {
                        continue;
                    }
                    if self.name(k) == Some("img") {
                        if self.img_alt(k).map(|a| a.chars().any(crate::util::is_visible)).unwrap_or(false) {
                            return true;
                        }
                        continue;
                    }
                    stack.extend(self.nodes[k].children.iter().copied());
                }
                Kind::Document => stack.extend(self.nodes[k].children.iter().copied()),
                _ => {}
            }
        }
        false
    }
    /// Ancestors of a node, nearest first.
    pub fn ancestors(&self, n: usize) -> Vec<usize> {
        let mut v = vec![];
        let mut p = self.nodes[n].parent;
        while let Some(q) = p {
            v.push(q);
            p = self.nodes[q].parent;
        }
        v
    }
    pub fn elements(&self) -> impl Iterator<Item = usize> + '_ {
        (0..self.nodes.len()).filter(|&n| self.is_elem(n) && self.attached(n))
    }
    /// Is the node reachable from the document root?
    pub fn attached(&self, n: usize) -> bool {
        let mut k = n;
        loop {
            if k == 0 {
                return true;
            }
            match self.nodes[k].parent {
                Some(p) => k = p,
                None => return false,
            }
        }
    }
    pub fn attr(&self, n: usize, k: &str) -> Option<&str> {
        if let Kind::Elem { ref attrs, .. } = self.nodes[n].kind {
            attrs.iter().find(|(a, _)| a == k).map(|(_, v)| v.as_str())
        } else {
            None
        }
    }
    /// Visible text stream in document order (not whitespace-stripped).
    pub fn visible_text(&self) -> String {
        self.text_items().into_iter().map(|(_, t)| t).collect()
    }
}

// ---------------------------------------------------------------------------------------------
// serialisation of (a part of) the oracle DOM back to HTML

const VOID: &[&str] = &["area", "base", "br", "col", "embed", "hr", "img", "input", "link", "meta", "param", "source", "track", "wbr"];

fn esc_text(s: &str, out: &mut String) {
    for c in s.chars() {
        match c {
            '&' => out.push_str("&amp;"),
            '<' => out.push_str("&lt;"),
            '>' => out.push_str("&gt;"),
            c => out.push(c),
        }
    }
}

impl Arena {
    /// Serialise the document, leaving out every subtree for which `skip` holds; with
    /// `strip_style`, `<style>` elements and `style` attributes are left out as well.
    pub fn to_html(&self, skip: &dyn Fn(usize) -> bool, strip_style: bool) -> String {
        let mut out = String::new();
        self.ser_node(0, skip, strip_style, &mut out);
        out
    }

    fn ser_node(&self, n: usize, skip: &dyn Fn(usize) -> bool, strip_style: bool, out: &mut String) {
        match &self.nodes[n].kind {
            Kind::Document => {
                out.push_str("<!DOCTYPE html>");
                for &c in &self.nodes[n].children {
                    self.ser_node(c, skip, strip_style, out);
                }
            }
            Kind::Text(t) => {
                let raw = self.nodes[n].parent.map(|p| matches!(self.name(p), Some("script" | "style"))).unwrap_or(false);
                if raw {
                    out.push_str(t);
                } else {
                    esc_text(t, out);
                }
            }
            Kind::Comment(_) | Kind::Doctype | Kind::Pi => {}
            Kind::Elem { name, attrs, .. } => {
                if skip(n) {
                    // a comment keeps the neighbouring text nodes separate, as they are in the
                    // original document (merging them changes html2text's size estimates)
                    out.push_str("<!---->");
                    return;
                }
                if strip_style && self.name(n) == Some("style") {
                    return;
                }
                let local: &str = &name.local;
                out.push('<');
                out.push_str(local);
                for (k, v) in attrs {
                    if strip_style && k == "style" {
                        continue;
                    }
                    out.push(' ');
                    out.push_str(k);
                    out.push_str("=\"");
                    for c in v.chars() {
                        match c {
                            '&' => out.push_str("&amp;"),
                            '"' => out.push_str("&quot;"),
                            c => out.push(c),
                        }
                    }
                    out.push('"');
                }
                out.push('>');
                if self.name(n).map(|l| VOID.contains(&l)).unwrap_or(false) {
                    return;
                }
                if matches!(self.name(n), Some("pre" | "textarea" | "listing")) {
                    // the parser drops one newline right after these start tags
                    out.push('\n');
                }
                for &c in &self.nodes[n].children {
                    self.ser_node(c, skip, strip_style, out);
                }
                out.push_str("</");
                out.push_str(local);
                out.push('>');
            }
        }
    }
}
