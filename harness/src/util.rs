//! Small shared helpers.
use unicode_width::{UnicodeWidthChar, UnicodeWidthStr};

pub fn cw(c: char) -> usize {
    UnicodeWidthChar::width(c).unwrap_or(0)
}

pub fn sw(s: &str) -> usize {
    UnicodeWidthStr::width(s)
}

/// Characters html2text keeps: not whitespace and not width-less controls.
pub fn is_visible(c: char) -> bool {
    !c.is_whitespace() && UnicodeWidthChar::width(c).is_some()
}

pub fn nonspace(s: &str) -> String {
    s.chars().filter(|c| is_visible(*c)).collect()
}

pub fn is_rule_glyph(c: char) -> bool {
    matches!(c, '─' | '┬' | '┴' | '┼')
}

pub fn is_border(c: char) -> bool {
    matches!(c, '─' | '│' | '┬' | '┴' | '┼')
}

pub fn lines_of(s: &str) -> Vec<&str> {
    s.lines().collect()
}

pub fn short(s: &str, n: usize) -> String {
    if s.chars().count() <= n {
        s.to_string()
    } else {
        let t: String = s.chars().take(n).collect();
        format!("{}…(+{} chars)", t, s.chars().count() - n)
    }
}

/// For terminal output: control characters other than line feed (NUL, ESC, CR, ...) are shown as
/// `\u{..}` so that a report never makes the output look binary to `grep` or repositions a cursor.
pub fn printable(s: &str) -> String {
    let mut out = String::with_capacity(s.len());
    for c in s.chars() {
        if c.is_control() && c != '\n' {
            out.push_str(&format!("\\u{{{:x}}}", c as u32));
        } else {
            out.push(c);
        }
    }
    out
}

pub fn lossy(b: &[u8]) -> String {
    String::from_utf8_lossy(b).to_string()
}

/// Display width of an output line for bound checks: the smaller of the per-character sum
/// (controls count 0) and the string measure (controls count 1, emoji sequences merged), so
/// that a line is reported as too wide only if it is too wide under both measures the library uses.
pub fn line_width(s: &str) -> usize {
    let a: usize = s.chars().map(cw).sum();
    a.min(sw(s))
}
