pub mod cfg;
pub mod engine;
pub mod gen;
pub mod odom;
pub mod props;
pub mod util;
pub mod minimise;
pub mod tablegeo;
