#![no_main]
use libfuzzer_sys::fuzz_target;

// The semantic oracle lives in the harness library; a violation aborts so that libFuzzer keeps the input.
fuzz_target!(|data: &[u8]| {
    if let Err((prop, msg)) = verif::fuzz::struct_oracle(data) {
        eprintln!("VERIF-VIOLATION property={} {}", prop, msg);
        std::process::abort();
    }
});
